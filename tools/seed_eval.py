#!/venv/bin/python
"""tools/seed_eval.py [--checks C01,C03 | --own] [seed ids...] — run checks against each seeded mutant (scratch copy, PANE_SRC),
record exit code + first witness in seeded/<id>/meta.json['detected_by'] and print a table."""
import json, os, shutil, subprocess, sys, tempfile, glob
V = os.path.dirname(os.path.dirname(os.path.abspath(__file__)))

def main():
    args = sys.argv[1:]
    checks = None
    if '--checks' in args:
        i = args.index('--checks'); checks = args[i + 1].split(','); del args[i:i + 2]
    own = '--own' in args
    args = [a for a in args if a != '--own']
    seeds = args or sorted(os.path.basename(p) for p in glob.glob(f"{V}/seeded/*") if os.path.isdir(p))
    man = json.load(open(f"{V}/MANIFEST.json"))
    claimed = [c['property_id'] for c in man['checks']]
    for sid in seeds:
        sd = f"{V}/seeded/{sid}"
        meta = json.load(open(f"{sd}/meta.json"))
        todo = checks or ([meta['property']] if own else claimed)
        todo = [c for c in todo if c in claimed]
        d = tempfile.mkdtemp(prefix='pane-mut-', dir='/tmp')
        try:
            subprocess.run(f"git -C /repo archive HEAD | tar -x -C {d}", shell=True, check=True)
            p = subprocess.run(f"patch -p1 -s < {sd}/patch.diff", shell=True, cwd=d, capture_output=True, text=True)
            if p.returncode != 0:
                print(f"{sid}: PATCH NO LONGER APPLIES"); continue
            for c in todo:
                env = dict(os.environ, PANE_SRC=d, VERIF_EVIDENCE_DIR=f"{d}/evidence")
                r = subprocess.run([f"{V}/check", c], cwd=V, env=env, capture_output=True, text=True)
                lines = r.stdout.splitlines()
                wit = next((l.strip() for l in lines if l.startswith('  ')), '')
                meta['detected_by'][c] = {'exit': r.returncode, 'witness': wit[:300]}
                print(f"{sid:8s} {c}: exit={r.returncode} {wit[:150]}")
        finally:
            shutil.rmtree(d, ignore_errors=True)
        json.dump(meta, open(f"{sd}/meta.json", 'w'), indent=1)

if __name__ == '__main__':
    main()
