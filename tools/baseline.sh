#!/bin/sh
# run the pinned baseline suite against a tree (default /repo); prints the tail
SRC=${1:-/repo}
cd "$SRC" && /venv/bin/python -m pytest -q -p no:cacheprovider -x --deselect tests/test_numpy.py 2>&1 | tail -2
cd "$SRC" && /venv/bin/python -m pytest -q -p no:cacheprovider 2>&1 | tail -1
