#!/venv/bin/python
"""tools/neutral_eval.py [--jobs N] [--checks C01,C02] [ids...] — run every claimed check (quick tier) against each
property-PRESERVING change kept under /verif/neutral/<id>/ (scratch copy of /repo HEAD + patch, PANE_SRC) and report any
check that is not silent.  Results go to neutral/<id>/meta.json['checks'] and a table on stdout.  A non-zero exit here is
either a false alarm of the check (to be corrected) or a change that is not neutral after all (to be moved to seeded/)."""
import json, os, shutil, subprocess, sys, tempfile, glob, concurrent.futures as cf
V = os.path.dirname(os.path.dirname(os.path.abspath(__file__)))


def run_one(nid, checks):
    nd = f"{V}/neutral/{nid}"
    d = tempfile.mkdtemp(prefix='pane-neu-', dir='/tmp')
    out = {}
    try:
        meta = json.load(open(f"{nd}/meta.json"))
        base = meta['base_commit'] if meta.get('pinned_base') else 'HEAD'
        subprocess.run(f"git -C /repo archive {base} | tar -x -C {d}", shell=True, check=True)
        p = subprocess.run(f"patch -p1 -s < {nd}/patch.diff", shell=True, cwd=d, capture_output=True, text=True)
        if p.returncode != 0:
            return nid, {'_patch': 'NO LONGER APPLIES'}
        t = subprocess.run(['/venv/bin/python', '-m', 'pytest', '-q', '-p', 'no:cacheprovider'], cwd=d, capture_output=True, text=True)
        out['_suite'] = (t.stdout.strip().splitlines() or ['?'])[-1]
        for c in checks:
            env = dict(os.environ, PANE_SRC=d, VERIF_EVIDENCE_DIR=f"{d}/evidence")
            r = subprocess.run([f"{V}/check", c], cwd=V, env=env, capture_output=True, text=True)
            lines = r.stdout.splitlines()
            wit = next((l.strip() for l in lines if l.startswith('  ')), '')
            if r.returncode not in (0, 1):
                wit = wit or (r.stdout + r.stderr)[-400:]
            out[c] = {'exit': r.returncode, 'witness': wit[:400]}
            if r.returncode != 0 and base != 'HEAD':
                # the change is pinned to an older commit: does that commit WITHOUT the change give the same verdict?
                d0 = tempfile.mkdtemp(prefix='pane-neu-', dir='/tmp')
                try:
                    subprocess.run(f"git -C /repo archive {base} | tar -x -C {d0}", shell=True, check=True)
                    r0 = subprocess.run([f"{V}/check", c], cwd=V, env=dict(os.environ, PANE_SRC=d0, VERIF_EVIDENCE_DIR=f"{d0}/evidence"),
                                        capture_output=True, text=True)
                    out[c]['unpatched_base_exit'] = r0.returncode
                finally:
                    shutil.rmtree(d0, ignore_errors=True)
    finally:
        shutil.rmtree(d, ignore_errors=True)
    return nid, out


RELEVANT = {
    'pane/errors.py': 'C01 C03 C04 C07 C08 C12 C13', 'pane/converters.py': 'C01 C02 C03 C04 C05 C06 C07 C08 C09 C10 C11 C12 C13 C19',
    'pane/classes.py': 'C01 C03 C04 C05 C06 C07 C08 C09 C14 C15 C16 C17 C18', 'pane/convert.py': 'C01 C02 C04 C10 C11 C13 C18',
    'pane/field.py': 'C05 C14 C15 C17 C20', 'pane/io.py': 'C04 C10 C12 C18 C19', 'pane/util.py': 'C10 C11 C13 C17',
    'pane/annotations.py': 'C01 C02 C12 C13', 'pane/types.py': 'C03 C05 C06', 'pane/addons/numpy.py': 'C01 C02 C04 C13',
}


def relevant_checks(nid, claimed):
    """The checks that exercise the files a change touches (a superset, by file), plus the one of the change's own property."""
    import re
    files = set(re.findall(r'^\+\+\+ b/(\S+)', open(f"{V}/neutral/{nid}/patch.diff").read(), re.M))
    want = {nid.split('_')[0]}
    for f in files:
        want |= set(RELEVANT.get(f, ' '.join(claimed)).split())
    return [c for c in claimed if c in want]


def main():
    args = sys.argv[1:]
    rel = '--relevant' in args
    own = '--own' in args
    args = [a for a in args if a not in ('--relevant', '--own')]
    jobs = 3
    checks = None
    if '--jobs' in args:
        i = args.index('--jobs'); jobs = int(args[i + 1]); del args[i:i + 2]
    if '--checks' in args:
        i = args.index('--checks'); checks = args[i + 1].split(','); del args[i:i + 2]
    ids = args or sorted(os.path.basename(p) for p in glob.glob(f"{V}/neutral/*") if os.path.isdir(p))
    man = json.load(open(f"{V}/MANIFEST.json"))
    claimed = [c['property_id'] for c in man['checks']]
    todo = [c for c in (checks or claimed) if c in claimed]
    bad = 0
    with cf.ThreadPoolExecutor(jobs) as ex:
        for nid, out in ex.map(lambda n: run_one(n, [c for c in todo if c == n.split('_')[0]] if own else (relevant_checks(n, todo) if rel else todo)), ids):
            mp = f"{V}/neutral/{nid}/meta.json"
            meta = json.load(open(mp))
            meta.setdefault('checks', {}).update(out)
            json.dump(meta, open(mp, 'w'), indent=1)
            noisy = {c: o for c, o in out.items() if not c.startswith('_') and o['exit'] != 0 and o.get('unpatched_base_exit') != o['exit']}
            bad += bool(noisy)
            print(f"{nid:8s} suite={out.get('_suite', out.get('_patch'))!s:32s} silent={len(out) - len(noisy) - 1}/{len(out) - 1}"
                  + ''.join(f"\n    {c}: exit={o['exit']} {o['witness'][:200]}" for c, o in noisy.items()), flush=True)
    print(f"done: {bad} change(s) with a non-silent check")


if __name__ == '__main__':
    main()
