#!/venv/bin/python
"""tools/neutral_eval.py [--jobs N] [--checks C01,C02] [ids...] — run every claimed check (quick tier) against each
property-PRESERVING change kept under /verif/neutral/<id>/ (scratch copy of /repo HEAD + patch, PANE_SRC) and report any
check that is not silent.  Results go to neutral/<id>/meta.json['checks'] and a table on stdout.  A non-zero exit here is
either a false alarm of the check (to be corrected) or a change that is not neutral after all (to be moved to seeded/)."""
import json, os, shutil, subprocess, sys, tempfile, glob, concurrent.futures as cf
V = os.path.dirname(os.path.dirname(os.path.abspath(__file__)))


def run_one(nid, checks):
    nd = f"{V}/neutral/{nid}"
    d = tempfile.mkdtemp(prefix='pane-neu-', dir='/tmp')
    out = {}
    try:
        meta = json.load(open(f"{nd}/meta.json"))
        base = meta['base_commit'] if meta.get('pinned_base') else 'HEAD'
        subprocess.run(f"git -C /repo archive {base} | tar -x -C {d}", shell=True, check=True)
        p = subprocess.run(f"patch -p1 -s < {nd}/patch.diff", shell=True, cwd=d, capture_output=True, text=True)
        if p.returncode != 0:
            return nid, {'_patch': 'NO LONGER APPLIES'}
        t = subprocess.run(['/venv/bin/python', '-m', 'pytest', '-q', '-p', 'no:cacheprovider'], cwd=d, capture_output=True, text=True)
        out['_suite'] = (t.stdout.strip().splitlines() or ['?'])[-1]
        for c in checks:
            env = dict(os.environ, PANE_SRC=d, VERIF_EVIDENCE_DIR=f"{d}/evidence")
            r = subprocess.run([f"{V}/check", c], cwd=V, env=env, capture_output=True, text=True)
            lines = r.stdout.splitlines()
            wit = next((l.strip() for l in lines if l.startswith('  ')), '')
            if r.returncode not in (0, 1):
                wit = wit or (r.stdout + r.stderr)[-400:]
            out[c] = {'exit': r.returncode, 'witness': wit[:400]}
    finally:
        shutil.rmtree(d, ignore_errors=True)
    return nid, out


def main():
    args = sys.argv[1:]
    jobs = 3
    checks = None
    if '--jobs' in args:
        i = args.index('--jobs'); jobs = int(args[i + 1]); del args[i:i + 2]
    if '--checks' in args:
        i = args.index('--checks'); checks = args[i + 1].split(','); del args[i:i + 2]
    ids = args or sorted(os.path.basename(p) for p in glob.glob(f"{V}/neutral/*") if os.path.isdir(p))
    man = json.load(open(f"{V}/MANIFEST.json"))
    claimed = [c['property_id'] for c in man['checks']]
    todo = [c for c in (checks or claimed) if c in claimed]
    bad = 0
    with cf.ThreadPoolExecutor(jobs) as ex:
        for nid, out in ex.map(lambda n: run_one(n, todo), ids):
            mp = f"{V}/neutral/{nid}/meta.json"
            meta = json.load(open(mp))
            meta.setdefault('checks', {}).update(out)
            json.dump(meta, open(mp, 'w'), indent=1)
            noisy = {c: o for c, o in out.items() if not c.startswith('_') and o['exit'] != 0}
            bad += bool(noisy)
            print(f"{nid:8s} suite={out.get('_suite', out.get('_patch'))!s:32s} silent={len(out) - len(noisy) - 1}/{len(todo)}"
                  + ''.join(f"\n    {c}: exit={o['exit']} {o['witness'][:200]}" for c, o in noisy.items()), flush=True)
    print(f"done: {bad} change(s) with a non-silent check")


if __name__ == '__main__':
    main()
