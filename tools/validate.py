"""python3-vt tools/validate.py manifest|evidence [files...] — validate against the schemas in /root/.vp (or the copies in tools/schemas)."""
import json, os, sys, glob
import jsonschema
V = os.path.dirname(os.path.dirname(os.path.abspath(__file__)))
def schema(name):
    for d in ('/root/.vp', os.path.join(V, 'tools', 'schemas')):
        p = os.path.join(d, name)
        if os.path.exists(p):
            return json.load(open(p))
    raise SystemExit(f"schema {name} not found")
def main():
    what = sys.argv[1]
    bad = 0
    if what == 'manifest':
        jsonschema.validate(json.load(open(os.path.join(V, 'MANIFEST.json'))), schema('MANIFEST.schema.json'))
        print("MANIFEST.json valid")
    elif what == 'evidence':
        files = sys.argv[2:] or sorted(glob.glob(os.path.join(V, 'evidence', '*.json')))
        sch = schema('EVIDENCE.schema.json')
        for f in files:
            try:
                jsonschema.validate(json.load(open(f)), sch)
                print(f"{os.path.basename(f)} valid")
            except Exception as e:
                bad += 1
                print(f"{os.path.basename(f)} INVALID: {str(e)[:300]}")
    return 1 if bad else 0
if __name__ == '__main__':
    sys.exit(main())
