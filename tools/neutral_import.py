#!/venv/bin/python
"""tools/neutral_import.py <ID> <K> — import /tmp/wn/<ID>/neutral<ID>_<K>.diff + exercise into /verif/neutral/<ID>_<K>/ after
confirming on a scratch copy of /repo HEAD: patch applies, baseline suite unchanged (218 passed / 9 failed), the exercise
passes both without and with the patch."""
import json, os, shutil, subprocess, sys, tempfile
V = os.path.dirname(os.path.dirname(os.path.abspath(__file__)))

def sh(cmd, cwd=None):
    p = subprocess.run(cmd, shell=True, cwd=cwd, capture_output=True, text=True)
    return p.returncode, (p.stdout + p.stderr)

def main():
    pid, k = sys.argv[1], sys.argv[2]
    opt = lambda n, d=None: sys.argv[sys.argv.index(n) + 1] if n in sys.argv else d   # noqa: E731
    wt = f"/tmp/wn/{pid}"
    src = opt('--from', wt)                      # where the (possibly rebased) diff and the exercise are
    base_rev = opt('--base', 'HEAD')                 # commit of /repo the diff applies to (pinned when not HEAD)
    diff = opt('--diff', f"{wt}/neutral{pid}_{k}.diff"); ex = f"{src}/exercise{pid}_{k}.py"; notes = f"{wt}/NEUTRAL_NOTES{pid}_.md"
    d = tempfile.mkdtemp(prefix='pane-neu-', dir='/tmp')
    try:
        sh(f"git -C /repo archive {base_rev} | tar -x -C {d}")
        open(f"{d}/exercise.py", 'w').write(open(ex).read().replace(src, d).replace(wt, d))
        rc0, out0 = sh("/venv/bin/python exercise.py", d)
        rc, out = sh(f"patch -p1 -s < {diff}", d)
        if rc != 0:
            print("PATCH DOES NOT APPLY:", out[-400:]); return 2
        rc1, out1 = sh("/venv/bin/python exercise.py", d)
        _, base = sh("/venv/bin/python -m pytest -q -p no:cacheprovider 2>&1 | tail -1", d)
        _, stat = sh(f"diffstat -s {diff} 2>/dev/null || grep -c '^[+-][^+-]' {diff}")
        ok = rc0 == 0 and rc1 == 0 and '218 passed' in base and '9 failed' in base
        print(f"{pid}_{k}: exercise clean rc={rc0} / changed rc={rc1}; suite: {base.strip()}; changed lines: {stat.strip()} -> {'CONFIRMED' if ok else 'REJECTED'}")
        if not ok:
            print(out0[-300:], out1[-300:]); return 1
        dst = f"{V}/neutral/{pid}_{k}"
        os.makedirs(dst, exist_ok=True)
        shutil.copy(diff, f"{dst}/patch.diff")
        open(f"{dst}/exercise.py", 'w').write(open(ex).read())
        open(f"{dst}/NOTES.md", 'w').write((open(notes).read() if os.path.exists(notes) else '') + f"\n\n(this directory holds change {k} of these notes)\n")
        meta = {'id': f"{pid}_{k}", 'property': pid,
                'origin': 'fresh sub-agent given only the property text and its own scratch worktree, asked for a change that PRESERVES the property',
                'base_commit': subprocess.run(f"git -C /repo rev-parse {base_rev}", shell=True, capture_output=True, text=True).stdout.strip(),
                'pinned_base': base_rev != 'HEAD',
                'confirmed': {'exercise_clean': rc0, 'exercise_changed': rc1, 'suite_with_change': base.strip()}, 'checks': {}}
        json.dump(meta, open(f"{dst}/meta.json", 'w'), indent=1)
        return 0
    finally:
        shutil.rmtree(d, ignore_errors=True)

if __name__ == '__main__':
    sys.exit(main())
