#!/bin/sh
# Offline setup: nothing to build (pure Python). Verify interpreter, pane import from /repo, and the manifest schema.
set -e
cd "$(dirname "$0")/.."
/venv/bin/python -c "
import sys; sys.path.insert(0, '.')
from mc import core
p = core.import_pane(); print('pane from', p.__file__)
import yaml, numpy; print('yaml', yaml.__version__, 'numpy', numpy.__version__)
"
mkdir -p evidence replays
if command -v python3-vt >/dev/null 2>&1; then python3-vt tools/validate.py manifest; fi
echo setup ok
