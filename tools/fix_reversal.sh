#!/bin/bash
# A spec a,b,c reverts several commits (newest first) where later fixes touched the same lines; a *.diff is a hand-made partial reversal.
# For every fix: commit in /repo, revert it in a scratch copy and run the check(s) that should notice. Output: one line per (commit, check).
cd /verif
while read sha checks; do
  for c in $checks; do
    case "$sha" in *.diff) spec=/verif/seeded/reversal_patches/$sha ;; *) spec=revert:$sha ;; esac
    if [ -n "${ONLY:-}" ] && ! echo "$sha" | grep -q "$ONLY"; then continue; fi
    out=$(tools/try_mutant.sh $spec $c 2>&1)
    base=$(echo "$out" | grep "baseline on mutant" | sed 's/.*mutant: //')
    code=$(echo "$out" | grep "^== $c exit" | sed 's/.*exit=//')
    wit=$(echo "$out" | grep -v "^==\|^\[\|^VIOL\|^KNOWN" | head -1 | cut -c1-200)
    echo "$sha $c exit=${code:-?} baseline=[$base] $wit"
  done
done <<'LIST'
9a4ce18 C10
b8de338 C01 C14
71449d8 C01 C04
8dc4d13 C01 C02 C05
8f63d37 C01
91eecce C02 C11 C15
75a507b,90791ce C04 C12
143a935 C04
abc1dfd C04
5dfd1c0 C04
e043d9f C05 C15
aaf2eab C05 C06
d4b85b4,cddd33e C08
9a3a12c C10
0bf6f13 C13
978698b C16
1fb4498 C17 C18
7ed1881 C17
14f6499 C15
15167b8,7b756ce,96075f2,a58d796 C04
327ffe0 C09
0d94701_partial.diff C08
8418eeb C05
6a61739 C05
d98a809 C05
1b86043 C18
cef896e C17
e551e73 C17
67cf103 C17
bbda586 C17
15167b8,7b756ce,96075f2,954495f C06
15167b8,7b756ce,96075f2 C05
d4b85b4,4f9f7e8,67bdc16 C08
3033459 C11
4f9f7e8 C04
c156be2 C16
571ecc8,a009b18 C04
fffe4f6 C04
001f011,486fe1b C14 C01
0699e7c C02 C01
15167b8,7b756ce C01
d4b85b4 C08
02ce248,09f03f7 C16
51e4f90,f8434c2 C13
460c1b6 C19
02ce248 C16
51e4f90 C13
75a507b C12
001f011 C03 C04
a3420f3 C17
c6595f2 C01
LIST
