#!/venv/bin/python
"""Regenerate /verif/MANIFEST.json from the table below and validate it (python3-vt has jsonschema)."""
import json, os, subprocess, sys
V = os.path.dirname(os.path.dirname(os.path.abspath(__file__)))

E1_NOTE = ("Bounds: nesting depth <= 2 over the full leaf set plus depth 3 over a reduced base (thorough: depth 3 over 11 leaves); values = members + "
           "all single deviations + a fixed pool; every spelling of every expression. Trusted: the reference model / oracle in /verif/mc "
           "(written from docs and the property text; UNSPEC cells are counted, not judged).")

CHECKS = {
    'C01': ("bounded-exhaustive type-grammar x spelling x value enumeration on the real converters, compared cell by cell with an executable reference model",
            "All type expressions of a finite grammar (47 leaves incl. 12 generated dataclasses, 16 constructors, every equivalent spelling) up to the tier's depth are "
            "crossed with a complete finite value universe (members, every single-deviation neighbour, a fixed pool of arbitrary interchange values); every cell calls "
            "pane.from_data and is compared with the reference model's verdict and exactly-typed image; a freshly built converter must agree with the memoised one. "
            "This visits every parent x child x grandchild combination of converters, which is where the acceptance defects live, and no example-based test can.",
            E1_NOTE),
    # id: (technique, level text, level note)
    'C02': ("exhaustive enumeration of the full matrix kind(value) x kind(target) x embedding context on the real converters; literal forbidden-relation oracle",
            "The complete Cartesian product of 41 data representatives (16 kinds), 40 target types and 13 embedding contexts (thorough: all 169 context pairs) is run through "
            "pane.from_data; every pair the statement forbids must raise ConvertError, inside a union the datum must come back as itself through its own-kind member, and the "
            "lossless widenings must produce the exact widened value. The matrix is finite, so every cell is visited.",
            "Forbidden relation transcribed from the statement; bool/int overlap cells are UNSPEC. Representatives per kind are fixed."),
    'C03': ("bounded-exhaustive converter x value enumeration; internal differential oracle between the two hand-mirrored passes of the real converters",
            "For every converter obtainable from the extended grammar (all built-in converters, user conditions incl. raising and non-bool predicates, the three tagged layouts, "
            "HasConverter classes, ValueOrList, Range, ndarray, dataclasses with raising hooks and init=False fields) and every value of the universe (plus a typed-value pool), "
            "try_convert succeeds iff collect_errors returns None, convert never raises the internal RuntimeError, and every error tree is well formed. The 17 mirrored "
            "fast/diagnostic pairs are each driven through every branch by the single-deviation neighbourhood.",
            E1_NOTE),
    'C04': ("bounded-exhaustive enumeration with an adversarial alphabet substituted at every position; outcome-class oracle; exhaustive builder and hook-exception tables",
            "Every expression x every member with each adversarial atom / key substituted at each position (plus pools) is run through from_data, convert, Cls.from_data, "
            "Cls.from_obj, from_json and from_yaml; anything other than a return or ConvertError is a violation, grouped by the innermost pane frame it passed. Every grammar "
            "expression must build; every entry of an unsupported-type table (incl. dataclasses with an unsupported field, nested five ways) must raise TypeError / "
            "UnsupportedAnnotation at build time; hooks raising 13 exception classes are placed in 9 contexts.",
            E1_NOTE),
    'C05': ("bounded-exhaustive type x member enumeration plus the full dataclass layout/renaming/alias configuration cube on the real code; serial-form reference model + round-trip oracle",
            "Every accepted cell of the grammar is serialised, checked against the documented serial form (scalar types exact), re-parsed (must be typed-equal) and serialised again "
            "(equal up to set order). The dataclass cube (6 layout pairs x 26 class naming settings x 10 field naming settings x kw-only placement x exclude x default kinds, 37k classes) "
            "is generated as real classes; a configuration is judged when the reference naming model (computed from the user's settings, never read back from pane) says the output form "
            "is enabled on input. Two inherent defects are listed as known findings and matched by computed predicates.",
            E1_NOTE),
    'C06': ("bounded-exhaustive type x member enumeration with natively built typed values (model images) pushed through the real convert; fixed-point oracle",
            "For every accepted member of every grammar type the exactly-typed Python value is built natively (stdlib objects; dataclass instances both through constructors and "
            "make_unchecked; nested in every container) and pushed through pane.convert: the result must match the model image at every depth, a second convert must be the identity, "
            "and the value pane itself produced must also be a fixed point. Range, ValueOrList, HasConverter and internally tagged unions are included; the Range defect and the "
            "untagged-union ambiguity are known findings matched by type root / computed overlap predicate.",
            E1_NOTE),
    'C07': ("bounded-exhaustive enumeration of rejected cells; compositional oracle (the implementation on strictly smaller inputs) plus reference field tables",
            "For every rejected cell the root of the error tree is rebuilt from element-wise runs of the real converters on the sub-values alone: product children keyed by exactly "
            "the positions/keys rejected on their own and equal (typed, nan-safe) to the element's own tree, missing/extra/duplicate from the reference field table, one sum child per "
            "typing.get_args member in order, leaves recording the sub-value at their path, wrappers transparent, and the tree unchanged by rendering. One level per cell; the levels "
            "below are the cells of the smaller types, so the check is an induction over the enumerated grammar.",
            E1_NOTE),
    'C08': ("bounded-exhaustive enumeration of reachable error trees; independent tree walk as text oracle; cross-interpreter digest comparison under two hash seeds",
            "Every error tree reachable from the extended cell space is rendered twice (must not raise, must be equal), checked against an independent walk that lists what the text "
            "must contain in nesting order (path components, leaf expectations, missing/extra/duplicate names also per the reference field table, offending values, cause messages), "
            "and re-rendered in two fresh interpreters with different PYTHONHASHSEED whose texts must agree.",
            E1_NOTE),
    'C09': ("bounded-exhaustive enumeration with before/after deep snapshots (structure + container identity) on the real entry points; immutable-spelling differential oracle",
            "Every cell runs from_data, convert, Cls.from_data, Cls(*args/**kw) and into_data(result) on fresh mutable containers (also defaultdict / inserting mappings) "
            "and compares a deep snapshot before and after, for both verdicts; the same datum spelled with tuple / MappingProxyType must give the same verdict and value.",
            E1_NOTE),
    'C10': ("explicit-state breadth-first search over operation histories on the real memo (canonical-state dedup) + stateless exploration of all thread schedules up to a preemption bound under a hand-written cooperative scheduler",
            "Histories: BFS over BUILD / CONVERT (4 handler forms, 12 probes each) / DROP+gc / EVICT sequences on two slots with type kinds that create a fresh type object each time "
            "(so ids really get recycled - the run counts recycling events); every CONVERT is compared with the outcome vector of a pristine interpreter; states are merged by a "
            "canonical form with a stated soundness argument. Schedules: sys.settrace line-level cooperative scheduler with a re-entrant cooperative lock replacing KeyCache's RLock; "
            "iterative context bounding explores every schedule with <= B preemptions of 2x2 and 3x1 lookup harnesses on colliding keys for the unbounded and LRU(0,1,2) modes and of "
            "two threads driving the real make_converter; per schedule: results equal f(args), no exception, no deadlock, LRU ring/dict invariants at quiescence; replayed prefixes "
            "must see identical enabled sets (determinism gate).",
            "Source-line granularity under the GIL; preemption bound 2/1 quick, 3/2 thorough; history depth 5 quick, 6 thorough; id recycling depends on CPython's allocator (observed, counted)."),
    'C11': ("exhaustive enumeration of ordered member pairs/triples x nesting forms x overlap values on the real union converter; compositional oracle (each member alone)",
            "All ordered pairs (thorough: triples) over 20 deliberately overlapping member types in 10 nesting forms (nested/flattened unions, Optional inside and outside, "
            "container element, Annotated, dataclass field, generic dataclass field after subscription) are run on every value in any member's neighbourhood; the result must be "
            "typed-equal to what the first accepting member (order from typing.get_args of the spelled type) returns alone; each value sequence is replayed a second time on the "
            "memoised converter (history independence); serialisation must come from a member that round-trips the value.",
            "Members are converted alone by the same implementation (strictly smaller types, themselves covered by C01). Member pool and value pools are fixed."),
    'C12': ("exhaustive enumeration of tagged-union type configurations x layouts x wrapped data on the real converter; compositional oracle (the selected variant alone)",
            "189 tagged types (7 tag sets incl. int, mixed and falsy tags x 3 body relations x 3 variant kinds x 3 layouts) are run on every variant body wrapped with every "
            "declared, undeclared, absent and ill-kinded tag, the malformed wrappers of each layout, and all non-mappings; a declared tag must yield exactly that variant's own "
            "result or error tree, anything else a ConvertError naming the tag; duplicate tags are refused at build; into_data must write the layout and read back equal.",
            "Variant bodies and odd tags come from fixed lists; == -but-other-type tags are UNSPEC."),
    'C13': ("exhaustive enumeration of condition expressions (atoms closed under the combinators) x inner types x placements x boundary grid on the real converters; reference evaluator",
            "All 53 stock-condition atoms (every (min,max) pair of val_range / len_range over {None,0,5,2.5} / {None,0,1,2}, the seven adjectives, shape / broadcastable for five shapes, "
            "raising / user / non-bool predicates) closed under &, |, ~, Condition.all, Condition.any and multi-condition Annotated (1.1k expressions quick, two levels thorough) are "
            "attached to 8 inner types in 5 placements and run over each type's complete boundary grid; accept iff the inner type accepts and the reference evaluator (Python's own "
            "operators, left-to-right short circuit) says True; a raising predicate must yield a ConditionFailedError with cause, a false one without; the accepted value is the inner "
            "conversion's; into_data ignores conditions. Each condition object sees the whole grid in sequence, so stateful predicates are exposed.",
            "Grid values and shapes are fixed lists; numpy semantics are taken from numpy itself."),
    'C14': ("exhaustive enumeration of generated class programs x all subsets of supplied fields x construction path on the real classes; path-differential oracle; bounded mutate/construct histories",
            "Every class made of 1-2 (thorough 1-3) fields from 16 field kinds x layouts x hooks is generated as a real pane class; for all subsets of supplied fields and plain / "
            "convertible / ill-kinded arguments every construction path (keyword, positional, mapping data, sequence data, make_unchecked) is run: paths must agree, arguments convert "
            "exactly like from_data on the field type (same value or same error tree), defaults are equal, exactly typed, fresh products never shared between instances, the set-field "
            "record equals the supplied names, make_unchecked is verbatim, the hook runs once per instance and fails as ConvertError-with-cause on data paths; all ordered pairs of "
            "paths are run as construct / mutate-default / construct histories.",
            "Field kinds and argument values are fixed lists; classes pane refuses at creation are skipped."),
    'C15': ("exhaustive enumeration of the naming/layout decision table (configuration cube x key subsets x sequence lengths) on real generated classes; reference naming model",
            "3 120 class configurations (26 class-naming x 10 field-naming settings x allow_extra x three in_format settings x kw-only placement) are generated as real classes and fed "
            "every mapping over all key subsets (size <= 2, thorough <= 3) of the candidate-name universe - so every alias/rename/duplicate/unknown/missing combination occurs - with "
            "valid and ill-kinded values, every sequence length 0..max+1 as list and tuple, and str/bytes look-alikes; verdict, bound values, set-field record and output form are "
            "compared with the reference model whose names are computed from the user's configuration.",
            "Reference naming rules transcribed from docs/using/dataclasses.md and the field() docstring; Python-name-next-to-rename cells are UNSPEC."),
    'C16': ("exhaustive enumeration of the dataclass option cube x class-body variants x field flags x all instance pairs on real generated classes; mirror standard-library dataclass + algebraic laws; bounded operation histories",
            "1 536 pane classes (eq x order x frozen x unsafe_hash x {plain, own __eq__, own __hash__, both} x 24 field-flag settings) are each paired with a mirror "
            "dataclasses.dataclass; class-creation refusal, ==, !=, the four ordering operators, hashability and hash-equality pattern and repr are compared on all 81 grid pairs; "
            "reflexive/symmetric/transitive/trichotomy laws are checked on the grid; frozen and non-frozen attribute protocols; generic parameterisations compare equal; all "
            "histories of depth <= 3 over setattr/copy/deepcopy/replace(good)/replace(bad) from five start states are checked against a (values, set-record, sharing) model.",
            "The standard library's dataclasses module is the reference for the rule tables; eq=False+order=True is UNSPEC."),
    'C17': ("exhaustive enumeration of class-hierarchy programs (generated and built as real classes) up to depth 3 plus two-base shapes; symbolic effective-field model + mirror dataclasses hierarchy",
            "Programs over root kinds {non-generic, Generic[T], Generic[T,U]} x 10 field-type shapes (incl. struct/tuple literals and a generic pane class as field type) x per-level generic "
            "forms {plain, bind all, forward, swap, partial bind + re-declared Generic, explicit Generic in another order, nested argument} x field actions (add required / defaulted / "
            "keyword-only, KW_ONLY marker, re-declare with new type or default) x option settings are enumerated (11.8k quick) and built; a symbolic model yields parameters, effective "
            "field order and substituted types, compared with inspect.signature (structurally), repr, positional binding, acceptance/rejection per substituted type after subscripting "
            "the leaf, and behavioural inheritance of in_format / rename / allow_extra / kw_only / frozen / custom; ill-formed programs must be refused with TypeError.",
            "Substituted types compared structurally; the standard library is the second opinion on parameter order; a re-declaration without a value keeps the inherited default (as in dataclasses)."),
    'C18': ("exhaustive enumeration of handler-source subsets x target types x nesting shapes x handler forms x directions on real generated class nests; marking-converter oracle",
            "Each of the five handler sources is a marking converter that multiplies by its own prime on the way in and divides on the way out; all 2^5 source subsets (nearest-class "
            "handlers both own and inherited) x 4 target kinds x 13 nesting shapes (incl. Any-typed container members, nested and inherited fields) x 3 handler forms are built as real "
            "Outer/Inner class nests with the global handler registered or not, and from_data, into_data and convert must show the prime of the source the documented precedence "
            "selects; mapping-form handlers are checked not to match parameterised or subclass lookups. Global state is reset between cells.",
            "Precedence table transcribed from the statement and docs/using/advanced.md."),
    'C19': ("exhaustive enumeration of value pool x sink kind x source kind x the full formatting-option cube on the real IO functions under a non-UTF-8 locale, with pane.io.open recorded; "
            "bounded multi-document write histories",
            "Every pooled typed value is written and read back through every sink/source kind pairing and every one of the 8 JSON and 1 152 YAML option settings (quick: full cube on "
            "half of the values, 24 cube corners on the rest); the process runs with LC_ALL=C / PYTHONUTF8=0 so a missing encoding is visible, and pane.io.open is shadowed by a recorder "
            "to check encoding='utf-8' and closure of every handle pane opens (also on failing reads); caller streams must stay open and be positioned after the text; histories of 0-3 "
            "documents (incl. null documents) written to one stream must come back one value per document from from_yaml_all.",
            "Value pool and option values are fixed lists; PyYAML / json as installed are trusted to parse what they emit (a dumper limitation would be triaged, none seen)."),
    'C20': ("bounded-exhaustive enumeration of all identifiers (<=3/4 words over a 3-letter alphabet) x styles on the real rename code, algebraic-law oracle",
            "Every snake_case identifier of up to 3 (quick) / 4 (thorough) words of 2-3 letters over {a,b,z} is pushed through all 5 styles and all 25 style pairs on the real code; canonical form, idempotence, inverse and composition laws are checked on every one, malformed shapes must raise ValueError, and the class-level rename path is exercised on generated classes. The space is finite and fully enumerated, which is the right level for a pure string function whose failure modes are word-boundary patterns that all occur within 3-4 short words.",
            "Alphabet {a,b,z}, words of 2-3 letters; digits / non-ASCII outside the alphabet. Oracle formulas are independent of pane's splitting code."),
}

# what later rounds of seeded changes added to each exploration (appended to the level text)
ADDENDA = {
    'C01': "Expressions that differ only in the order of union members run in ONE interpreter, one after the other (they compare and hash equal, so a memo must be shown not to confuse them), incl. overlapping unions inside eight kinds of container; after every mutable container of a result has been modified, the same data must convert to the same image again. The tagged unions have a reference model too (variants are fixture dataclasses); int / Any are also spelled as bound / free TypeVars; a non-member that raises anything but ConvertError is reported; every type's first values are judged a second time after the whole pass.",
    'C02': "Now 19 contexts (Annotated with a condition that always holds, a Counter count, a field behind an init=False field, a defaulted field, a class carrying custom={int: ...}) and every single context also with custom={int: stock converter} passed to the call. Targets include the numpy scalar types; a constructor argument of another kind that equals the field's default is a separate call mode; floats / complex equal to int literals are in the data.",
    'C03': "A pass that lets an exception through which the other pass handles counts as disagreement; data include over-long regex repetitions and a non-frozen class whose hook assigns a field; tagged unions also as members of untagged unions.",
    'C04': "Adversarial atoms include ints beyond the interpreter's str-digits limit as values and as KEYS, and every mapping is also presented as a bare collections.abc.Mapping (no copy / pop). Texts that hold no document or an empty one go through from_yaml / from_yaml_all / from_json for every small type.",
    'C05': "Mix-in enums, nested set-like keys, Optional fields with non-None defaults and field renames under a class style are part of the fixtures. A dataclass with a field that is neither written nor compared is explored as set member and mapping key, with Python's own == after the round trip; the precondition (output form enabled on input) is applied to every dataclass in the type.",
    'C06': "ValueOrList values are also built natively (from_val / from_list), alone and inside containers; order twins of unions share an interpreter. A dataclass whose fields carry converter= is built from already-typed arguments; the ValueOrList ambiguity finding is matched by a predicate computed without the converter under test.",
    'C07': "Tagged unions (three layouts, alone and inside untagged unions) must report the selected variant's own tree; order twins of unions share an interpreter. A stream of YAML documents that fails must give the tree of converting the list of documents.",
    'C08': "For a union every path component that each member ALONE reports must be named (alternatives with equal descriptions included); values whose rendering would fail (huge ints) are part of the data. ... and the same text; unprintable mapping KEYS (unexpected fields) are part of the data.",
    'C09': "Cls.from_dict_unchecked is an entry point; snapshots are order-sensitive (a key taken out and put back is a modification). into_data(container, T) on inserting mappings is an entry point.",
    'C10': "Every probe runs from_data and into_data; handler forms include ONE mapping object whose entries change between calls; pristine outcomes are computed per probe in a forked child; all ordered sequences of <= 3 (thorough 4) probes run through one memoised converter for six long-lived types; when a schedule bound is capped the bound below is completed and reported. Handler-form sequences (all sequences of <= 3 of the six handler forms) for four long-lived dataclasses incl. one with a class rename style and one whose hook appends to a default container; reader-call histories (from_yaml / from_yaml_all / from_json in all orders of three).",
    'C11': "17 forms (tuple / struct literals, builtin list, class handlers, type variables bound to or duplicated by a member, one generic class subscripted with the whole union), both member orders in one interpreter, sequences of equal-but-differently-typed values (1, 1.0, True; 0.0, -0.0), and ten unions with non-adjacent Literal members. convert(data, U) must agree with the left-most member; two dataclasses sharing a name in one union.",
    'C12': "Also: the same variants under a second tag attribute, inside a tuple-output dataclass, content key before tag key, as a later member of four untagged unions, Tagged followed by a condition, and write_json / write_yaml / from_json / from_yaml with ty=. Variants whose tag field is init=False (internal layout).",
    'C13': "63 atoms incl. eight raising exception classes and three DISTINCT predicates that share one name (bundled, combined, and met one after the other in one interpreter); three more placements put the annotated type under call-level / class-level custom= handlers for its inner type. 10**400 in the int grid (finite, beyond float range).",
    'C14': "22 field kinds (excluded fields, mapping arguments with keys of different runtime types, a default written in unconverted form and passed back as the same object) and 4 hooks (none, counting, raising, assigning); unvalidated instances as arguments. A bool argument for an int field and an Ellipsis default are part of the kinds.",
    'C15': "Every configuration also with a hidden init=False field and as a subscripted generic class; mapping data also as MappingProxyType and bare Mapping; output also through Union[look-alike class, cls]. Also an excluded-field variant of every configuration and deque data for the positional layout.",
    'C16': "Class bodies also with an explicit __hash__ = None (with and without __eq__); a real subclass of a subscripted generic is unequal to the generic; derived classes; an excluded field in the copy / replace histories. Ordering across generic parameterisations must agree with equality.",
    'C17': "16 field-type shapes (a generic dataclass directly, below List / Optional / Dict / Annotated, partially bound, through a re-parameterised alias), a field converter on a type-variable annotation, mixins, diamonds, plain mixin before the pane base, inherited init=False field. Unions that mention the type variable next to an overlapping member, both orders, with a value check.",
    'C18': "5 targets (incl. str) x 16 shapes (incl. keys of undeclared key type, converter on a type-variable field of a subscripted generic) ; histories: one mapping object edited between calls, three levels sharing a handler object, one handler object as class handler then as call handler and back. Shape tagged_variant; every file reader and writer with custom=.",
    'C19': "The pool includes tagged unions in three layouts and declared str-subclass types (alone, in a list, as a key, as a field). from_yaml_all for Union[int, float] and Union[float, int] in one interpreter; reader-call histories.",
    'C20': "The class path covers rename=, in_rename=, dict(rename=), dict(set_only=True, rename=) and field(out_name=) under a class style; history-dependent witnesses (a memo keyed too coarsely) are confirmed by re-running the originating shard. dict(rename=<every other style>) on classes with their own style; malformed field names through the class path.",
}

ADDENDA6 = {
    'C01': "Fixtures include a generic dataclass nested in a subscripted generic dataclass, tagged unions inside a tuple-layout class, list-of-dataclass / mapping-of-list fields and a class that inherits its hook.",
    'C02': "Call modes plain / custom / yaml / json / construct; data include one-byte bytes and bytearray values; numpy scalar targets.",
    'C10': "Thread scenarios include two threads converting ONE shared value object; a separate shard runs reader-call histories and multi-document unions in both member orders.",
    'C11': "Serialisation is judged without data: the output for a typed value must be the serialisation by a member that reads it back.",
    'C12': "A variant and its subclass that inherit one tag value must be refused when the type is built.",
    'C14': "A derived class that inherits a raising / assigning __post_init__ is explored like its base.",
    'C17': "Form 'regeneric': a generic class whose field is another generic class re-parameterised with the outer variable.",
}

PENDING_REASON = "check not built yet (work in progress; planned as bounded-exhaustive model checking, see DESIGN.md section 3)"

def main():
    props = [json.loads(l)['id'] for l in open(os.path.join(V, 'properties.jsonl'))]
    checks = []
    for pid in props:
        if pid not in CHECKS:
            continue
        tech, text, note = CHECKS[pid]
        text = (text + ' ' + ADDENDA.get(pid, '') + ' ' + ADDENDA6.get(pid, '')).strip()
        checks.append({
            'property_id': pid,
            'quick_cmd': f'./check {pid} --tier quick',
            'thorough_cmd': f'./check {pid} --tier thorough',
            'evidence_file': f'/verif/evidence/{pid}.json',
            'replay_cmd_template': f'./check {pid} --replay {{path}}',
            'engine': 'mc',
            'level_claimed': {'category': 'model_checking', 'text': text, 'design_ref': f'DESIGN.md section 3 ({pid})'},
            'level_note': note,
            'technique': tech,
        })
    man = {
        'version': 1,
        'setup_cmd': './tools/setup.sh',
        'hooks': {
            'guard': 'PANE_VERIF',
            'enable': 'none needed: no source hooks exist; checks import the working tree of /repo (or $PANE_SRC) in fresh interpreters',
            'baseline_off_cmd': 'cd /repo && /venv/bin/python -m pytest -ra -q -p no:cacheprovider --timeout=900 --continue-on-collection-errors',
            'source_commits': [],
            'add_only': True,
        },
        'engines': [
            {'name': 'mc', 'path': '/verif/mc', 'serves_properties': [c['property_id'] for c in checks],
             'kind_free_text': 'hand-written bounded-exhaustive explorers in Python running the real pane code: type-grammar x value product exploration against a reference model (E1), explicit-state BFS over operation histories (E2), deviation-bounded cooperative thread scheduler (E3), class-program generator (E4)'},
        ],
        'checks': checks,
        'not_applicable': [{'property_id': p, 'reason': PENDING_REASON} for p in props if p not in CHECKS],
        'notes': 'All checks: ./check <ID> [--tier quick|thorough] [--replay PATH]; PANE_SRC selects another tree (default /repo). Exit 0 held / 1 VIOLATION / 3 harness fault.',
    }
    path = os.path.join(V, 'MANIFEST.json')
    with open(path, 'w') as f:
        json.dump(man, f, indent=1)
        f.write('\n')
    r = subprocess.run(['python3-vt', os.path.join(V, 'tools', 'validate.py'), 'manifest'], capture_output=True, text=True)
    sys.stdout.write(r.stdout + r.stderr)
    return r.returncode

if __name__ == '__main__':
    sys.exit(main())
