#!/venv/bin/python
"""Regenerate /verif/MANIFEST.json from the table below and validate it (python3-vt has jsonschema)."""
import json, os, subprocess, sys
V = os.path.dirname(os.path.dirname(os.path.abspath(__file__)))

E1_NOTE = ("Bounds: nesting depth <= 2 over the full leaf set plus depth 3 over a reduced base (thorough: depth 3 over 11 leaves); values = members + "
           "all single deviations + a fixed pool; every spelling of every expression. Trusted: the reference model / oracle in /verif/mc "
           "(written from docs and the property text; UNSPEC cells are counted, not judged).")

CHECKS = {
    'C01': ("bounded-exhaustive type-grammar x spelling x value enumeration on the real converters, compared cell by cell with an executable reference model",
            "All type expressions of a finite grammar (47 leaves incl. 12 generated dataclasses, 16 constructors, every equivalent spelling) up to the tier's depth are "
            "crossed with a complete finite value universe (members, every single-deviation neighbour, a fixed pool of arbitrary interchange values); every cell calls "
            "pane.from_data and is compared with the reference model's verdict and exactly-typed image; a freshly built converter must agree with the memoised one. "
            "This visits every parent x child x grandchild combination of converters, which is where the acceptance defects live, and no example-based test can.",
            E1_NOTE),
    # id: (technique, level text, level note)
    'C02': ("exhaustive enumeration of the full matrix kind(value) x kind(target) x embedding context on the real converters; literal forbidden-relation oracle",
            "The complete Cartesian product of 41 data representatives (16 kinds), 40 target types and 13 embedding contexts (thorough: all 169 context pairs) is run through "
            "pane.from_data; every pair the statement forbids must raise ConvertError, inside a union the datum must come back as itself through its own-kind member, and the "
            "lossless widenings must produce the exact widened value. The matrix is finite, so every cell is visited.",
            "Forbidden relation transcribed from the statement; bool/int overlap cells are UNSPEC. Representatives per kind are fixed."),
    'C03': ("bounded-exhaustive converter x value enumeration; internal differential oracle between the two hand-mirrored passes of the real converters",
            "For every converter obtainable from the extended grammar (all built-in converters, user conditions incl. raising and non-bool predicates, the three tagged layouts, "
            "HasConverter classes, ValueOrList, Range, ndarray, dataclasses with raising hooks and init=False fields) and every value of the universe (plus a typed-value pool), "
            "try_convert succeeds iff collect_errors returns None, convert never raises the internal RuntimeError, and every error tree is well formed. The 17 mirrored "
            "fast/diagnostic pairs are each driven through every branch by the single-deviation neighbourhood.",
            E1_NOTE),
    'C04': ("bounded-exhaustive enumeration with an adversarial alphabet substituted at every position; outcome-class oracle; exhaustive builder and hook-exception tables",
            "Every expression x every member with each adversarial atom / key substituted at each position (plus pools) is run through from_data, convert, Cls.from_data, "
            "Cls.from_obj, from_json and from_yaml; anything other than a return or ConvertError is a violation, grouped by the innermost pane frame it passed. Every grammar "
            "expression must build; every entry of an unsupported-type table (incl. dataclasses with an unsupported field, nested five ways) must raise TypeError / "
            "UnsupportedAnnotation at build time; hooks raising 13 exception classes are placed in 9 contexts.",
            E1_NOTE),
    'C05': ("bounded-exhaustive type x member enumeration plus the full dataclass layout/renaming/alias configuration cube on the real code; serial-form reference model + round-trip oracle",
            "Every accepted cell of the grammar is serialised, checked against the documented serial form (scalar types exact), re-parsed (must be typed-equal) and serialised again "
            "(equal up to set order). The dataclass cube (6 layout pairs x 26 class naming settings x 10 field naming settings x kw-only placement x exclude x default kinds, 37k classes) "
            "is generated as real classes; a configuration is judged when the reference naming model (computed from the user's settings, never read back from pane) says the output form "
            "is enabled on input. Two inherent defects are listed as known findings and matched by computed predicates.",
            E1_NOTE),
    'C06': ("bounded-exhaustive type x member enumeration with natively built typed values (model images) pushed through the real convert; fixed-point oracle",
            "For every accepted member of every grammar type the exactly-typed Python value is built natively (stdlib objects; dataclass instances both through constructors and "
            "make_unchecked; nested in every container) and pushed through pane.convert: the result must match the model image at every depth, a second convert must be the identity, "
            "and the value pane itself produced must also be a fixed point. Range, ValueOrList, HasConverter and internally tagged unions are included; the Range defect and the "
            "untagged-union ambiguity are known findings matched by type root / computed overlap predicate.",
            E1_NOTE),
    'C07': ("bounded-exhaustive enumeration of rejected cells; compositional oracle (the implementation on strictly smaller inputs) plus reference field tables",
            "For every rejected cell the root of the error tree is rebuilt from element-wise runs of the real converters on the sub-values alone: product children keyed by exactly "
            "the positions/keys rejected on their own and equal (typed, nan-safe) to the element's own tree, missing/extra/duplicate from the reference field table, one sum child per "
            "typing.get_args member in order, leaves recording the sub-value at their path, wrappers transparent, and the tree unchanged by rendering. One level per cell; the levels "
            "below are the cells of the smaller types, so the check is an induction over the enumerated grammar.",
            E1_NOTE),
    'C08': ("bounded-exhaustive enumeration of reachable error trees; independent tree walk as text oracle; cross-interpreter digest comparison under two hash seeds",
            "Every error tree reachable from the extended cell space is rendered twice (must not raise, must be equal), checked against an independent walk that lists what the text "
            "must contain in nesting order (path components, leaf expectations, missing/extra/duplicate names also per the reference field table, offending values, cause messages), "
            "and re-rendered in two fresh interpreters with different PYTHONHASHSEED whose texts must agree.",
            E1_NOTE),
    'C09': ("bounded-exhaustive enumeration with before/after deep snapshots (structure + container identity) on the real entry points; immutable-spelling differential oracle",
            "Every cell runs from_data, convert, Cls.from_data, Cls(*args/**kw) and into_data(result) on fresh mutable containers (also defaultdict / inserting mappings) "
            "and compares a deep snapshot before and after, for both verdicts; the same datum spelled with tuple / MappingProxyType must give the same verdict and value.",
            E1_NOTE),
    'C10': ("explicit-state breadth-first search over operation histories on the real memo (canonical-state dedup) + stateless exploration of all thread schedules up to a preemption bound under a hand-written cooperative scheduler",
            "Histories: BFS over BUILD / CONVERT (4 handler forms, 12 probes each) / DROP+gc / EVICT sequences on two slots with type kinds that create a fresh type object each time "
            "(so ids really get recycled - the run counts recycling events); every CONVERT is compared with the outcome vector of a pristine interpreter; states are merged by a "
            "canonical form with a stated soundness argument. Schedules: sys.settrace line-level cooperative scheduler with a re-entrant cooperative lock replacing KeyCache's RLock; "
            "iterative context bounding explores every schedule with <= B preemptions of 2x2 and 3x1 lookup harnesses on colliding keys for the unbounded and LRU(0,1,2) modes and of "
            "two threads driving the real make_converter; per schedule: results equal f(args), no exception, no deadlock, LRU ring/dict invariants at quiescence; replayed prefixes "
            "must see identical enabled sets (determinism gate).",
            "Source-line granularity under the GIL; preemption bound 2/1 quick, 3/2 thorough; history depth 5 quick, 6 thorough; id recycling depends on CPython's allocator (observed, counted)."),
    'C11': ("exhaustive enumeration of ordered member pairs/triples x nesting forms x overlap values on the real union converter; compositional oracle (each member alone)",
            "All ordered pairs (thorough: triples) over 20 deliberately overlapping member types in 10 nesting forms (nested/flattened unions, Optional inside and outside, "
            "container element, Annotated, dataclass field, generic dataclass field after subscription) are run on every value in any member's neighbourhood; the result must be "
            "typed-equal to what the first accepting member (order from typing.get_args of the spelled type) returns alone; each value sequence is replayed a second time on the "
            "memoised converter (history independence); serialisation must come from a member that round-trips the value.",
            "Members are converted alone by the same implementation (strictly smaller types, themselves covered by C01). Member pool and value pools are fixed."),
    'C12': ("exhaustive enumeration of tagged-union type configurations x layouts x wrapped data on the real converter; compositional oracle (the selected variant alone)",
            "189 tagged types (7 tag sets incl. int, mixed and falsy tags x 3 body relations x 3 variant kinds x 3 layouts) are run on every variant body wrapped with every "
            "declared, undeclared, absent and ill-kinded tag, the malformed wrappers of each layout, and all non-mappings; a declared tag must yield exactly that variant's own "
            "result or error tree, anything else a ConvertError naming the tag; duplicate tags are refused at build; into_data must write the layout and read back equal.",
            "Variant bodies and odd tags come from fixed lists; == -but-other-type tags are UNSPEC."),
    'C13': ("exhaustive enumeration of condition expressions (atoms closed under the combinators) x inner types x placements x boundary grid on the real converters; reference evaluator",
            "All 53 stock-condition atoms (every (min,max) pair of val_range / len_range over {None,0,5,2.5} / {None,0,1,2}, the seven adjectives, shape / broadcastable for five shapes, "
            "raising / user / non-bool predicates) closed under &, |, ~, Condition.all, Condition.any and multi-condition Annotated (1.1k expressions quick, two levels thorough) are "
            "attached to 8 inner types in 5 placements and run over each type's complete boundary grid; accept iff the inner type accepts and the reference evaluator (Python's own "
            "operators, left-to-right short circuit) says True; a raising predicate must yield a ConditionFailedError with cause, a false one without; the accepted value is the inner "
            "conversion's; into_data ignores conditions. Each condition object sees the whole grid in sequence, so stateful predicates are exposed.",
            "Grid values and shapes are fixed lists; numpy semantics are taken from numpy itself."),
    'C14': ("exhaustive enumeration of generated class programs x all subsets of supplied fields x construction path on the real classes; path-differential oracle; bounded mutate/construct histories",
            "Every class made of 1-2 (thorough 1-3) fields from 16 field kinds x layouts x hooks is generated as a real pane class; for all subsets of supplied fields and plain / "
            "convertible / ill-kinded arguments every construction path (keyword, positional, mapping data, sequence data, make_unchecked) is run: paths must agree, arguments convert "
            "exactly like from_data on the field type (same value or same error tree), defaults are equal, exactly typed, fresh products never shared between instances, the set-field "
            "record equals the supplied names, make_unchecked is verbatim, the hook runs once per instance and fails as ConvertError-with-cause on data paths; all ordered pairs of "
            "paths are run as construct / mutate-default / construct histories.",
            "Field kinds and argument values are fixed lists; classes pane refuses at creation are skipped."),
    'C15': ("exhaustive enumeration of the naming/layout decision table (configuration cube x key subsets x sequence lengths) on real generated classes; reference naming model",
            "3 120 class configurations (26 class-naming x 10 field-naming settings x allow_extra x three in_format settings x kw-only placement) are generated as real classes and fed "
            "every mapping over all key subsets (size <= 2, thorough <= 3) of the candidate-name universe - so every alias/rename/duplicate/unknown/missing combination occurs - with "
            "valid and ill-kinded values, every sequence length 0..max+1 as list and tuple, and str/bytes look-alikes; verdict, bound values, set-field record and output form are "
            "compared with the reference model whose names are computed from the user's configuration.",
            "Reference naming rules transcribed from docs/using/dataclasses.md and the field() docstring; Python-name-next-to-rename cells are UNSPEC."),
    'C16': ("exhaustive enumeration of the dataclass option cube x class-body variants x field flags x all instance pairs on real generated classes; mirror standard-library dataclass + algebraic laws; bounded operation histories",
            "1 536 pane classes (eq x order x frozen x unsafe_hash x {plain, own __eq__, own __hash__, both} x 24 field-flag settings) are each paired with a mirror "
            "dataclasses.dataclass; class-creation refusal, ==, !=, the four ordering operators, hashability and hash-equality pattern and repr are compared on all 81 grid pairs; "
            "reflexive/symmetric/transitive/trichotomy laws are checked on the grid; frozen and non-frozen attribute protocols; generic parameterisations compare equal; all "
            "histories of depth <= 3 over setattr/copy/deepcopy/replace(good)/replace(bad) from five start states are checked against a (values, set-record, sharing) model.",
            "The standard library's dataclasses module is the reference for the rule tables; eq=False+order=True is UNSPEC."),
    'C17': ("exhaustive enumeration of class-hierarchy programs (generated and built as real classes) up to depth 3 plus two-base shapes; symbolic effective-field model + mirror dataclasses hierarchy",
            "Programs over root kinds {non-generic, Generic[T], Generic[T,U]} x 10 field-type shapes (incl. struct/tuple literals and a generic pane class as field type) x per-level generic "
            "forms {plain, bind all, forward, swap, partial bind + re-declared Generic, explicit Generic in another order, nested argument} x field actions (add required / defaulted / "
            "keyword-only, KW_ONLY marker, re-declare with new type or default) x option settings are enumerated (11.8k quick) and built; a symbolic model yields parameters, effective "
            "field order and substituted types, compared with inspect.signature (structurally), repr, positional binding, acceptance/rejection per substituted type after subscripting "
            "the leaf, and behavioural inheritance of in_format / rename / allow_extra / kw_only / frozen / custom; ill-formed programs must be refused with TypeError.",
            "Substituted types compared structurally; the standard library is the second opinion on parameter order; a re-declaration without a value keeps the inherited default (as in dataclasses)."),
    'C18': ("exhaustive enumeration of handler-source subsets x target types x nesting shapes x handler forms x directions on real generated class nests; marking-converter oracle",
            "Each of the five handler sources is a marking converter that multiplies by its own prime on the way in and divides on the way out; all 2^5 source subsets (nearest-class "
            "handlers both own and inherited) x 4 target kinds x 13 nesting shapes (incl. Any-typed container members, nested and inherited fields) x 3 handler forms are built as real "
            "Outer/Inner class nests with the global handler registered or not, and from_data, into_data and convert must show the prime of the source the documented precedence "
            "selects; mapping-form handlers are checked not to match parameterised or subclass lookups. Global state is reset between cells.",
            "Precedence table transcribed from the statement and docs/using/advanced.md."),
    'C19': ("exhaustive enumeration of value pool x sink kind x source kind x the full formatting-option cube on the real IO functions under a non-UTF-8 locale, with pane.io.open recorded; "
            "bounded multi-document write histories",
            "Every pooled typed value is written and read back through every sink/source kind pairing and every one of the 8 JSON and 1 152 YAML option settings (quick: full cube on "
            "half of the values, 24 cube corners on the rest); the process runs with LC_ALL=C / PYTHONUTF8=0 so a missing encoding is visible, and pane.io.open is shadowed by a recorder "
            "to check encoding='utf-8' and closure of every handle pane opens (also on failing reads); caller streams must stay open and be positioned after the text; histories of 0-3 "
            "documents (incl. null documents) written to one stream must come back one value per document from from_yaml_all.",
            "Value pool and option values are fixed lists; PyYAML / json as installed are trusted to parse what they emit (a dumper limitation would be triaged, none seen)."),
    'C20': ("bounded-exhaustive enumeration of all identifiers (<=3/4 words over a 3-letter alphabet) x styles on the real rename code, algebraic-law oracle",
            "Every snake_case identifier of up to 3 (quick) / 4 (thorough) words of 2-3 letters over {a,b,z} is pushed through all 5 styles and all 25 style pairs on the real code; canonical form, idempotence, inverse and composition laws are checked on every one, malformed shapes must raise ValueError, and the class-level rename path is exercised on generated classes. The space is finite and fully enumerated, which is the right level for a pure string function whose failure modes are word-boundary patterns that all occur within 3-4 short words.",
            "Alphabet {a,b,z}, words of 2-3 letters; digits / non-ASCII outside the alphabet. Oracle formulas are independent of pane's splitting code."),
}

# what later rounds of seeded changes added to each exploration (appended to the level text)
sys.path.insert(0, V)
from mc import addenda  # noqa: E402

PENDING_REASON = "check not built yet (work in progress; planned as bounded-exhaustive model checking, see DESIGN.md section 3)"

def main():
    props = [json.loads(l)['id'] for l in open(os.path.join(V, 'properties.jsonl'))]
    checks = []
    for pid in props:
        if pid not in CHECKS:
            continue
        tech, text, note = CHECKS[pid]
        text = (text + ' ' + addenda.text(pid)).strip()
        checks.append({
            'property_id': pid,
            'quick_cmd': f'./check {pid} --tier quick',
            'thorough_cmd': f'./check {pid} --tier thorough',
            'evidence_file': f'/verif/evidence/{pid}.json',
            'replay_cmd_template': f'./check {pid} --replay {{path}}',
            'engine': 'mc',
            'level_claimed': {'category': 'model_checking', 'text': text, 'design_ref': f'DESIGN.md section 3 ({pid})'},
            'level_note': note,
            'technique': tech,
        })
    man = {
        'version': 1,
        'setup_cmd': './tools/setup.sh',
        'hooks': {
            'guard': 'PANE_VERIF',
            'enable': 'none needed: no source hooks exist; checks import the working tree of /repo (or $PANE_SRC) in fresh interpreters',
            'baseline_off_cmd': 'cd /repo && /venv/bin/python -m pytest -ra -q -p no:cacheprovider --timeout=900 --continue-on-collection-errors',
            'source_commits': [],
            'add_only': True,
        },
        'engines': [
            {'name': 'mc', 'path': '/verif/mc', 'serves_properties': [c['property_id'] for c in checks],
             'kind_free_text': 'hand-written bounded-exhaustive explorers in Python running the real pane code: type-grammar x value product exploration against a reference model (E1), explicit-state BFS over operation histories (E2), deviation-bounded cooperative thread scheduler (E3), class-program generator (E4)'},
        ],
        'checks': checks,
        'not_applicable': [{'property_id': p, 'reason': PENDING_REASON} for p in props if p not in CHECKS],
        'notes': 'All checks: ./check <ID> [--tier quick|thorough] [--replay PATH]; PANE_SRC selects another tree (default /repo). Exit 0 held / 1 VIOLATION / 3 harness fault.',
    }
    path = os.path.join(V, 'MANIFEST.json')
    with open(path, 'w') as f:
        json.dump(man, f, indent=1)
        f.write('\n')
    r = subprocess.run(['python3-vt', os.path.join(V, 'tools', 'validate.py'), 'manifest'], capture_output=True, text=True)
    sys.stdout.write(r.stdout + r.stderr)
    return r.returncode

if __name__ == '__main__':
    sys.exit(main())
