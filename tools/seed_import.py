#!/venv/bin/python
"""tools/seed_import.py <ID> <K> [--needs "text"] — import /tmp/wt/<ID>/mut<ID>_<K>.diff + demo into /verif/seeded/<ID>_<K>/
after confirming on a scratch copy of /repo HEAD: patch applies, baseline suite unchanged (218 passed / 9 failed),
demo fails with the patch and passes without it."""
import json, os, re, shutil, subprocess, sys, tempfile
V = os.path.dirname(os.path.dirname(os.path.abspath(__file__)))

def sh(cmd, cwd=None):
    p = subprocess.run(cmd, shell=True, cwd=cwd, capture_output=True, text=True)
    return p.returncode, (p.stdout + p.stderr)

def main():
    pid, k = sys.argv[1], sys.argv[2]
    out_k = sys.argv[sys.argv.index('--as') + 1] if '--as' in sys.argv else k
    wt = f"/tmp/wt/{pid}"
    diff = f"{wt}/mut{pid}_{k}.diff"; demo = f"{wt}/demo{pid}_{k}.py"; notes = f"{wt}/NOTES{pid}_.md"
    d = tempfile.mkdtemp(prefix='pane-seed-', dir='/tmp')
    try:
        sh(f"git -C /repo archive HEAD | tar -x -C {d}")
        demo_txt = open(demo).read().replace(wt, d)
        open(f"{d}/demo.py", 'w').write(demo_txt)
        rc0, out0 = sh("/venv/bin/python demo.py", d)
        rc, out = sh(f"git apply --check {diff} && git apply {diff}", d) if False else sh(f"patch -p1 -s < {diff}", d)
        if rc != 0:
            print("PATCH DOES NOT APPLY:", out[-400:]); return 2
        rc1, out1 = sh("/venv/bin/python demo.py", d)
        _, base = sh("/venv/bin/python -m pytest -q -p no:cacheprovider 2>&1 | tail -1", d)
        ok = rc0 == 0 and rc1 != 0 and '218 passed' in base and '9 failed' in base
        print(f"{pid}_{out_k}: demo clean rc={rc0} / mutated rc={rc1}; baseline on mutant: {base.strip()} -> {'CONFIRMED' if ok else 'REJECTED'}")
        if not ok:
            print(out0[-300:], out1[-300:]); return 1
        dst = f"{V}/seeded/{pid}_{out_k}"
        os.makedirs(dst, exist_ok=True)
        shutil.copy(diff, f"{dst}/patch.diff")
        open(f"{dst}/demo.py", 'w').write(open(demo).read())
        note = ''
        if os.path.exists(notes):
            note = open(notes).read() + f"\n\n(this directory holds mutation {k} of these notes)\n"
        open(f"{dst}/NOTES.md", 'w').write(note)
        meta = {
            'id': f"{pid}_{out_k}", 'property': pid,
            'origin': 'fresh sub-agent given only the property text and its own scratch worktree',
            'base_commit': subprocess.run("git -C /repo rev-parse HEAD", shell=True, capture_output=True, text=True).stdout.strip(),
            'needs_to_manifest': ' '.join(sys.argv[sys.argv.index('--needs') + 1:]) if '--needs' in sys.argv else 'see NOTES.md',
            'confirmed': {'demo_on_clean_tree': 'PASS (exit 0)', 'demo_with_patch': f'FAIL (exit {rc1}): ' + out1.strip()[-200:],
                          'baseline_suite_with_patch': base.strip()},
            'what_i_ran': ["scratch copy of /repo HEAD (git archive), demo.py on clean copy, patch -p1 < patch.diff, demo.py again, full pytest suite on the patched copy"],
            'detected_by': {},
        }
        json.dump(meta, open(f"{dst}/meta.json", 'w'), indent=1)
        return 0
    finally:
        shutil.rmtree(d, ignore_errors=True)

if __name__ == '__main__':
    sys.exit(main())
