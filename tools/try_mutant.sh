#!/bin/bash
# usage: tools/try_mutant.sh <patch.diff | revert:<sha>> <ID> [<ID>...]
# Applies a change to a scratch copy of /repo, runs the baseline suite there, then the quick checks with PANE_SRC.
set -u
SPEC=$1; shift
D=$(mktemp -d /tmp/pane-mut-XXXXXX)
trap 'rm -rf "$D"' EXIT
git -C /repo archive HEAD | tar -x -C "$D"
# include uncommitted working-tree state of /repo too
(cd /repo && git diff HEAD) | (cd "$D" && git apply --allow-empty 2>/dev/null || true)
case "$SPEC" in
  revert:*) for SHA in $(echo "${SPEC#revert:}" | tr ',' ' '); do   # several commits: newest first
              (cd /repo && git diff "$SHA~" "$SHA") | (cd "$D" && patch -R -p1 -s) || { echo "REVERT FAILED"; exit 2; }
            done ;;
  *) (cd "$D" && patch -p1 -s < "$SPEC") || { echo "PATCH FAILED"; exit 2; } ;;
esac
echo "== baseline on mutant: $(cd "$D" && /venv/bin/python -m pytest -q -p no:cacheprovider 2>&1 | tail -1)"
rc=0
for ID in "$@"; do
  OUT=$(cd /verif && PANE_SRC="$D" VERIF_EVIDENCE_DIR="$D/evidence" ./check "$ID" ${TIER:+--tier $TIER} 2>&1)
  code=$?
  echo "== $ID exit=$code"
  echo "$OUT" | grep -E "VIOLATION|KNOWN-FINDING|HARNESS|^\[" | head -${LINES_MAX:-6}
  echo "$OUT" | grep -B1 "VIOLATION" | grep -v VIOLATION | head -${LINES_MAX:-4}
done
