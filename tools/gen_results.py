#!/venv/bin/python
"""Write seeded/RESULTS.md from seeded/*/meta.json and seeded/fix_reversals.txt."""
import glob, json, os, re, subprocess
V = os.path.dirname(os.path.dirname(os.path.abspath(__file__)))
rows = []
for d in sorted(glob.glob(f"{V}/seeded/*/meta.json")):
    m = json.load(open(d))
    det = m.get('detected_by', {})
    own = det.get(m['property'], {})
    others = [c for c, r in det.items() if c != m['property'] and r.get('exit') == 1]
    first = ''
    p = os.path.join(os.path.dirname(d), 'patch.diff')
    files = sorted(set(re.findall(r'^\+\+\+ b/(\S+)', open(p).read(), re.M)))
    rows.append((m['id'], m['property'], ', '.join(files), 'exit=%s' % own.get('exit', 'not run'), own.get('witness', '')[:150].replace('|', '/'), ', '.join(others)))
out = ["# Seeded property-breaking changes and what catches them", "",
       "Each row is one change produced by a fresh sub-agent that saw only the property text and its own scratch worktree (see `seeded/<id>/`: patch.diff, demo.py, NOTES.md, meta.json).",
       "All of them keep the repository's suite at 218 passed / 9 failed. `exit=1` = the property's own quick check reports a VIOLATION on the patched tree.", "",
       "| change | property | file(s) | own check | witness printed by the check | also caught by |", "|---|---|---|---|---|---|"]
for r in rows:
    out.append('| ' + ' | '.join(r) + ' |')
out += ["", "# Reversal of each `fix:` commit", "",
        "Every repair made in /repo is reverted in a scratch copy (`tools/try_mutant.sh revert:<sha>`) and the checks of the affected properties are run against it.", "",
        "| commit | check | result | baseline suite on the reverted tree | witness |", "|---|---|---|---|---|"]
fr = os.path.join(V, 'seeded', 'fix_reversals.txt')
if os.path.exists(fr):
    for line in open(fr):
        m = re.match(r'(\w+) (C\d+) exit=(\S+) baseline=\[(.*?)\]\s*(.*)', line.strip())
        if m:
            sha, c, code, base, wit = m.groups()
            subj = subprocess.run(['git', '-C', '/repo', 'log', '-1', '--format=%s', sha], capture_output=True, text=True).stdout.strip()
            out.append(f"| {sha} {subj[5:70]} | {c} | exit={code} | {base} | {wit[:140].replace('|', '/')} |")
open(os.path.join(V, 'seeded', 'RESULTS.md'), 'w').write('\n'.join(out) + '\n')
print('\n'.join(out[:12]))

# ---- neutral changes (property-preserving): every check must stay silent
nrows = []
for d in sorted(glob.glob(f"{V}/neutral/*/meta.json")):
    m = json.load(open(d))
    ch = m.get('checks', {})
    p = os.path.join(os.path.dirname(d), 'patch.diff')
    files = sorted(set(re.findall(r'^\+\+\+ b/(\S+)', open(p).read(), re.M)))
    ran = [c for c in ch if not c.startswith('_')]
    base_same = [c for c in ran if ch[c]['exit'] != 0 and ch[c].get('unpatched_base_exit') == ch[c]['exit']]
    noisy = [f"{c} (exit {ch[c]['exit']}): {ch[c]['witness'][:110]}" for c in ran if ch[c]['exit'] != 0 and c not in base_same]
    if base_same:
        noisy.append(f"[{', '.join(base_same)}: exit 1 with AND without the change on the pinned older commit]")
    nrows.append((m['id'], ', '.join(files), ch.get('_suite', '?'), f"{len(ran) - len([c for c in ran if ch[c]['exit'] != 0 and c not in base_same])}/{len(ran)}", '; '.join(noisy).replace('|', '/') or '-',
                  m.get('disposition', '-')))
if nrows:
    nout = ["# Property-preserving changes and the checks' silence", "",
            "Each row is one change produced by a fresh sub-agent that was asked for a realistic change in the code a property depends on which does NOT break it "
            "(see `neutral/<id>/`: patch.diff, exercise.py, NOTES.md, meta.json).  `tools/neutral_eval.py` applies each to a scratch copy and runs all 20 quick checks.",
            "A non-silent check is either a false alarm (corrected, see DESIGN.md section 11) or a change that is not neutral for that property after all (disposition column).", "",
            "| change | file(s) | suite with the change | silent checks | non-silent | disposition |", "|---|---|---|---|---|---|"]
    for r in nrows:
        nout.append('| ' + ' | '.join(r) + ' |')
    open(os.path.join(V, 'neutral', 'RESULTS.md'), 'w').write('\n'.join(nout) + '\n')
