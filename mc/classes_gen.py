"""
E4 - class-program generator: JSON-able class specs -> real pane dataclasses (and the reference
naming model used by C05/C14/C15).

ClassSpec (dict):
  name: str
  opts: {in_format, out_format, rename, in_rename, out_rename, allow_extra, kw_only, frozen, eq, order, unsafe_hash}
        (only keys that are set are passed to the class statement)
  fields: [ {name, type (type AST, see grammar), default: None | ['value', expr] | ['factory', 'list'|'dict'|'set'|<class leaf>],
             kw_only, rename, aliases, in_names, out_name, exclude, init, compare, hash, repr} ]
  post: None | 'count' | ['raise_if', field, expr, ExcName] | ['assign_self', field]
  kw_marker_before: optional field name before which a `_: KW_ONLY` marker is placed
"""
from __future__ import annotations

import typing as t

STYLES = ('snake', 'scream', 'kebab', 'camel', 'pascal')


def style_name(name: str, style: str) -> str:
    """Independent canonical styling (names are snake_case by construction)."""
    words = name.split('_')
    if style == 'snake':
        return '_'.join(words)
    if style == 'scream':
        return '_'.join(w.upper() for w in words)
    if style == 'kebab':
        return '-'.join(words)
    cap = [w[0].upper() + w[1:] for w in words]
    if style == 'camel':
        return words[0] + ''.join(cap[1:])
    if style == 'pascal':
        return ''.join(cap)
    raise ValueError(style)


# ---------------------------------------------------------------- reference naming model (from docs + field() docstring)

def class_in_styles(opts):
    if opts.get('rename') is not None:
        return (opts['rename'],)
    ir = opts.get('in_rename')
    if ir is None:
        return None
    return (ir,) if isinstance(ir, str) else tuple(ir)


def class_out_style(opts):
    if opts.get('rename') is not None:
        return opts['rename']
    return opts.get('out_rename')


def input_names(f, opts):
    """(firm_names, unspec_names): names that must bind to the field, and names whose acceptance the docs leave open."""
    name = f['name']
    styles = class_in_styles(opts)
    base = tuple(style_name(name, s) for s in styles) if styles is not None else (name,)
    if f.get('rename') is not None:
        return (f['rename'],), ((name,) if f['rename'] != name else ())
    if f.get('in_names') is not None:
        return tuple(f['in_names']), ()
    if f.get('aliases') is not None:
        al = f['aliases']
        al = (al,) if isinstance(al, str) else tuple(al)
        # field() docstring: aliases are additional names and "include the field name inside Python (unlike in_names)" - also next
        # to a class-level rename style
        firm = tuple(dict.fromkeys((*base, name, *al)))
        return firm, ()
    unspec = (name,) if name not in base else ()
    return base, unspec


def out_name(f, opts):
    name = f['name']
    if f.get('out_name') is not None:
        return f['out_name']
    if f.get('rename') is not None:
        return f['rename']
    st = class_out_style(opts)
    return style_name(name, st) if st is not None else name


def has_default(f):
    return f.get('default') is not None


def effective_fields(spec):
    """Declaration order with kw-only fields moved behind the positional ones."""
    kw_all = bool(spec.get('opts', {}).get('kw_only'))
    seen_marker = False
    out_pos, out_kw = [], []
    for f in spec['fields']:
        if spec.get('kw_marker_before') == f['name']:
            seen_marker = True
        kw = bool(f.get('kw_only')) or kw_all or seen_marker
        (out_kw if kw else out_pos).append(dict(f, kw_only=kw))
    return out_pos + out_kw


def positional_range(spec):
    fs = [f for f in effective_fields(spec) if f.get('init', True) and not f['kw_only']]
    req = 0
    for i, f in enumerate(fs):
        if not has_default(f):
            req = i + 1
    return req, len(fs)


# ---------------------------------------------------------------- building real classes

def new_class(name, bases, ns, **kw):
    """type(name, bases, ns, **kw) that also works with subscripted Generic[...] bases."""
    import types
    return types.new_class(name, tuple(bases), kw, lambda d: d.update(ns))


_EXC = {'ValueError': ValueError, 'TypeError': TypeError, 'KeyError': KeyError, 'AttributeError': AttributeError,
        'ZeroDivisionError': ZeroDivisionError, 'AssertionError': AssertionError, 'RuntimeError': RuntimeError,
        'Exception': Exception, 'LookupError': LookupError, 'OverflowError': OverflowError}


class HookBoom(Exception):
    """Raised by generated __post_init__ hooks: deliberately not in any builtin exception family."""


_EXC['HookBoom'] = HookBoom


class PostCounter:
    """Counts __post_init__ calls per generated class."""
    counts: t.Dict[str, int] = {}


def build_class(spec, build_type, eval_expr, registry=None, bases=None):
    """
    Create the pane class described by `spec`.
    `build_type(ast)` turns a type AST into a real type object; `eval_expr(str)` evaluates a value expression.
    Every class is appended to `registry` (pinned for the life of the worker).
    """
    import pane
    ann: t.Dict[str, t.Any] = {}
    ns: t.Dict[str, t.Any] = {}
    for f in spec['fields']:
        if spec.get('kw_marker_before') == f['name']:
            ann['_'] = pane.KW_ONLY
        ann[f['name']] = build_type(f['type'])
        kw: t.Dict[str, t.Any] = {}
        d = f.get('default')
        simple_default = False
        if d is not None:
            if d[0] == 'value':
                kw['default'] = eval_expr(d[1])
                simple_default = True
            elif d[0] == 'factory':
                fac = d[1]
                kw['default_factory'] = {'list': list, 'dict': dict, 'set': set}.get(fac) or build_type(fac)
        for k in ('rename', 'aliases', 'in_names', 'out_name'):
            if f.get(k) is not None:
                kw[k] = f[k]
        for k, dflt in (('kw_only', False), ('exclude', False), ('init', True), ('compare', True), ('repr', True)):
            if f.get(k, dflt) != dflt:
                kw[k] = f[k]
        if f.get('hash') is not None:
            kw['hash'] = f['hash']
        if f.get('converter') is not None:
            kw['converter'] = f['converter']
        if set(kw) <= {'default'} and (simple_default or not kw) and not f.get('force_field'):
            if simple_default:
                ns[f['name']] = kw['default']
        else:
            ns[f['name']] = pane.field(**kw)
    ns['__annotations__'] = ann
    ns['__module__'] = 'mc.generated'
    ns['__qualname__'] = spec['name']
    post = spec.get('post')
    if post == 'count':
        key = spec['name']

        def __post_init__(self, _key=key):
            PostCounter.counts[_key] = PostCounter.counts.get(_key, 0) + 1
        ns['__post_init__'] = __post_init__
    elif post and post[0] == 'assign_self':
        # a hook that normalises a field by ordinary assignment (the class must not be frozen)
        def __post_init__(self, _f=post[1]):
            setattr(self, _f, getattr(self, _f))
        ns['__post_init__'] = __post_init__
    elif post and post[0] == 'raise_if_set':
        # a validation hook that consults the record of supplied fields ("this option may not be given explicitly")
        def __post_init__(self, _f=post[1], _e=_EXC[post[2]]):
            if _f in self.__pane_set__:
                raise _e(f"post-init refuses an explicit {_f}")
        ns['__post_init__'] = __post_init__
    elif post:
        _, fname, expr, excname = post
        trig = eval_expr(expr)
        exc = _EXC[excname]

        def __post_init__(self, _f=fname, _t=trig, _e=exc):
            v = getattr(self, _f)
            if type(v) is type(_t) and v == _t:
                raise _e(f"post-init refuses {_f}={v!r}")
        ns['__post_init__'] = __post_init__
    if spec.get('init_false_setter'):
        # init=False fields must be initialised by the class itself
        prev = ns.get('__post_init__')
        setters = dict(spec['init_false_setter'])

        def __post_init__(self, _prev=prev, _s=setters, _plain=bool(spec.get('plain_setattr'))):   # noqa: F811
            for k, expr in _s.items():
                if _plain:
                    setattr(self, k, eval_expr(expr))       # an ordinary `self.k = ...` (the class is not frozen)
                else:
                    object.__setattr__(self, k, eval_expr(expr))
            if _prev is not None:
                _prev(self)
        ns['__post_init__'] = __post_init__
    opts = {k: (tuple(v) if isinstance(v, list) else v) for k, v in spec.get('opts', {}).items() if v is not None}
    if bases is None:
        bases = (pane.PaneBase,)
    cls = new_class(spec['name'], bases, ns, **opts)      # (also takes a subscripted Generic[...] base)
    if registry is not None:
        registry.append(cls)
    return cls
