"""
Shared runner for all checks: process pool, result merging, replay confirmation,
known-findings matching, evidence writing, exit codes.

A check module (mc/checks/cXX.py) provides

    ID            'C01'
    META          dict(rule=str, assumptions=[str], design_ref=str)
    plan(tier, seed)   -> list of JSON-able shard descriptors
    run_shard(shard, tier) -> ShardResult-like dict (see new_result())
    replay(cell)       -> list of violation dicts for that one cell (fresh interpreter)

Violations are dicts {sig: {..flat attrs..}, msg: str, cell: {...json-able...}, cost: int}.
"""
from __future__ import annotations

import collections
import hashlib
import importlib
import json
import multiprocessing
import os
import subprocess
import sys
import time
import traceback

VERIF = os.path.dirname(os.path.dirname(os.path.abspath(__file__)))
PANE_SRC = os.path.realpath(os.environ.get('PANE_SRC', '/repo'))
PY = '/venv/bin/python'
NPROC = int(os.environ.get('VERIF_PROCS', '16'))


def import_pane():
    """Import pane from $PANE_SRC (default /repo) and make sure that is the copy we got."""
    if sys.path[0] != PANE_SRC:
        sys.path.insert(0, PANE_SRC)
    import pane  # noqa
    got = os.path.realpath(os.path.dirname(os.path.dirname(pane.__file__)))
    if got != PANE_SRC:
        raise RuntimeError(f"pane imported from {got}, expected {PANE_SRC}")
    return pane


# --------------------------------------------------------------------------- results

MAX_PER_SIG = 3       # witnesses kept per signature per shard
MAX_SIGS = 400        # distinct signatures kept per shard (a broken tree can produce thousands)


def new_result():
    return {
        'evals': 0,            # implementation calls judged
        'states': 0,           # distinct cells / canonical states
        'transitions': 0,      # implementation calls / edges explored
        'validated': 0,        # model predictions compared with an implementation outcome
        'nontrivial': set(),   # distinct non-trivial keys (strings)
        'outcomes': collections.Counter(),   # outcome class -> count
        'unspec': collections.Counter(),     # UNSPEC class -> count
        'violations': {},      # sigkey -> list of violation dicts (smallest first)
        'samples': [],
        'extra': {},           # free-form counters, summed if int, else last wins
        'capped': False,
        'errors': [],          # harness faults (strings)
    }


def sstr(x, n=200):
    """str() that never raises (a broken tree can produce error objects whose rendering fails)."""
    try:
        return str(x)[:n]
    except Exception as e:  # noqa
        return f"<str() raised {type(e).__name__}: {e}>"[:n]


def srepr(x, n=200):
    try:
        return repr(x)[:n]
    except Exception as e:  # noqa
        return f"<repr() raised {type(e).__name__}: {e}>"[:n]


def site_of(exc):
    """Innermost frame inside the pane tree that an exception passed through: 'file.py:qualname' (root-cause signature)."""
    tb = getattr(exc, '__traceback__', None)
    site = None
    while tb is not None:
        code = tb.tb_frame.f_code
        fn = code.co_filename
        if fn.startswith(PANE_SRC + os.sep):
            site = f"{os.path.basename(fn)}:{getattr(code, 'co_qualname', code.co_name)}"
        tb = tb.tb_next
    return site or 'outside-pane'


def sig_key(sig):
    return json.dumps(sig, sort_keys=True, default=str)


def add_violation(res, sig, msg, cell, cost=0):
    k = sig_key(sig)
    lst = res['violations'].get(k)
    if lst is None:
        if len(res['violations']) >= MAX_SIGS:
            res['extra']['violation_sigs_dropped'] = res['extra'].get('violation_sigs_dropped', 0) + 1
            return
        lst = res['violations'][k] = []
    lst.append({'sig': sig, 'msg': msg, 'cell': cell, 'cost': cost})
    lst.sort(key=lambda v: (v['cost'], len(json.dumps(v['cell'], default=str))))
    del lst[MAX_PER_SIG:]


def merge(into, res):
    for k in ('evals', 'states', 'transitions', 'validated'):
        into[k] += res[k]
    into['nontrivial'] |= set(res['nontrivial'])
    into['outcomes'].update(res['outcomes'])
    into['unspec'].update(res['unspec'])
    for k, lst in res['violations'].items():
        cur = into['violations'].setdefault(k, [])
        cur.extend(lst)
        cur.sort(key=lambda v: (v['cost'], len(json.dumps(v['cell'], default=str))))
        del cur[MAX_PER_SIG:]
    if len(into['samples']) < 8:
        into['samples'].extend(res['samples'][: 8 - len(into['samples'])])
    for k, v in res['extra'].items():
        if isinstance(v, (int, float)) and not isinstance(v, bool):
            into['extra'][k] = into['extra'].get(k, 0) + v
        elif isinstance(v, (set, frozenset)):
            into['extra'][k] = set(into['extra'].get(k, ())) | set(v)
        else:
            into['extra'][k] = v
    into['capped'] |= res['capped']
    into['errors'].extend(res['errors'])


def _worker(args):
    modname, shard, tier = args
    try:
        import_pane()
        mod = importlib.import_module(modname)
        res = mod.run_shard(shard, tier)
        # every witness remembers the shard that produced it: a violation that depends on what ran before it in that
        # process (memo tables, registries) is replayed by re-running the whole shard in a fresh interpreter
        for lst in res['violations'].values():
            for v in lst:
                v.setdefault('origin', {'shard': shard, 'tier': tier})
        return res
    except BaseException:
        r = new_result()
        r['errors'].append(f"shard {str(shard)[:300]} crashed:\n{traceback.format_exc()}")
        return r


# --------------------------------------------------------------------------- known findings

def load_findings():
    path = os.path.join(VERIF, 'known_findings.json')
    with open(path) as f:
        data = json.load(f)
    return [e for e in data.get('findings', []) if isinstance(e, dict)]


def match_finding(findings, prop, sig):
    for e in findings:
        if e.get('property') != prop:
            continue
        m = e.get('match', {})
        if m and all(sig.get(k) == v for k, v in m.items()):
            return e
    return None


# --------------------------------------------------------------------------- main driver

def ensure_env(extra=None):
    """Re-exec with a fixed hash seed (enumeration order and error text reproducible) and the check's own environment."""
    want = {'PYTHONHASHSEED': '0', **(extra or {})}
    if any(os.environ.get(k) != v for k, v in want.items()) and not os.environ.get('VERIF_KEEP_ENV'):
        env = dict(os.environ, **want)
        os.execve(sys.executable, [sys.executable] + sys.argv, env)
    for stream in (sys.stdout, sys.stderr):
        try:
            stream.reconfigure(errors='backslashreplace')     # a C locale must not make a report line unprintable
        except Exception:  # noqa
            pass


def write_replay(prop, viol):
    blob = json.dumps({'property': prop, **viol}, sort_keys=True, default=str, indent=1)
    h = hashlib.sha1(blob.encode()).hexdigest()[:12]
    path = os.path.join(VERIF, 'replays', f'{prop}-{h}.json')
    os.makedirs(os.path.dirname(path), exist_ok=True)
    with open(path, 'w') as f:
        f.write(blob)
    return path


def confirm(prop, path):
    """Re-run one replay file in a fresh interpreter. Returns 'violation', 'clean' or 'fault'."""
    env = dict(os.environ)
    p = subprocess.run([PY, os.path.join(VERIF, 'check'), prop, '--replay', path, '--quiet'],
                       env=env, capture_output=True, text=True, timeout=1800)
    if p.returncode == 1:
        return 'violation'
    if p.returncode == 0:
        return 'clean'
    sys.stderr.write(p.stdout[-2000:] + p.stderr[-2000:])
    return 'fault'


def clear_subscription_memo():
    """Empty pane's memo of subscripted generic dataclasses, if it has one under the name this harness knows (an
    implementation detail of the library: when it is absent there is nothing to clear)."""
    try:
        from pane.classes import _make_subclass
    except ImportError:
        return
    f = getattr(_make_subclass, 'cache_clear', None)
    if f is not None:
        f()


def _addenda(mod):
    from mc import addenda
    return addenda.text(mod.ID)


def run_replay(mod, path, quiet=False, shard_only=False):
    import_pane()
    with open(path) as f:
        data = json.load(f)
    want = sig_key(data.get('sig', {}))
    if shard_only:
        # history-dependent witness: re-run the shard it came from, in this fresh interpreter, in the same deterministic order
        res = mod.run_shard(data['origin']['shard'], data['origin']['tier'])
        same = list(res['violations'].get(want, []))
        if same and not quiet:
            print("(reproduced by re-running the originating shard: the violation depends on the operations before it)")
    else:
        viols = mod.replay(data['cell'])
        same = [v for v in viols if sig_key(v['sig']) == want] or viols
        if not same and data.get('origin'):
            # the cell alone is clean in a fresh process: try the whole shard, in yet another fresh process (this one has
            # already built the cell's types and converters, which is itself a different history)
            p = subprocess.run([PY, os.path.join(VERIF, 'check'), mod.ID, '--replay', path, '--shard'] + (['--quiet'] if quiet else []),
                               env=dict(os.environ), capture_output=True, text=True, timeout=1200)
            if not quiet:
                sys.stdout.write(p.stdout)
            return 1 if p.returncode == 1 else 0
    if same:
        if not quiet:
            for v in same[:5]:
                print(f"reproduced: {v['msg']}")
            print(f"VIOLATION property={mod.ID} replay={path}")
        return 1
    if not quiet:
        print("not reproduced")
    return 0


def main(modname, argv):
    mod = importlib.import_module(modname)
    tier = os.environ.get('VERIF_TIER', 'quick')
    replay_path = None
    quiet = False
    shard_only = False
    it = iter(argv)
    for a in it:
        if a == '--tier':
            tier = next(it)
        elif a == '--replay':
            replay_path = next(it)
        elif a == '--quiet':
            quiet = True
        elif a == '--shard':
            shard_only = True
        else:
            raise SystemExit(f"unknown argument {a}")
    if tier not in ('quick', 'thorough'):
        raise SystemExit("tier must be quick or thorough")
    if replay_path:
        return run_replay(mod, replay_path, quiet, shard_only)

    seed = int(os.environ.get('VERIF_SEED', '0') or 0)
    t0 = time.time()
    shards = mod.plan(tier, seed)
    # VERIF_SEED only rotates the visiting order; coverage is identical for every seed
    if shards and not getattr(mod, 'KEEP_ORDER', False):
        r = seed % len(shards)
        shards = shards[r:] + shards[:r]
    total = new_result()
    ctx = multiprocessing.get_context('spawn')
    nproc = min(NPROC, max(1, len(shards)))
    with ctx.Pool(nproc, maxtasksperchild=getattr(mod, 'MAXTASKS', 1)) as pool:   # one shard per interpreter: a shard is replayable on its own
        for res in pool.imap_unordered(_worker, [(modname, s, tier) for s in shards]):
            merge(total, res)

    findings = load_findings()
    reported = []      # (sig, path, msg)
    known = []
    unreproduced = []
    sigs = sorted(total['violations'].items(), key=lambda kv: (kv[1][0]['cost'], kv[0]))
    MAX_CONFIRM = 25
    known_entries = set()
    for k, lst in sigs:
        v = lst[0]
        e = match_finding(findings, mod.ID, v['sig'])
        if e is not None and id(e) in known_entries:
            continue        # this listed finding was already reproduced once in this run
        if len(reported) + len(known) >= MAX_CONFIRM:
            # enough witnesses; remaining signatures are listed unconfirmed in evidence
            continue
        path = write_replay(mod.ID, v)
        st = confirm(mod.ID, path)
        if st == 'violation':
            (known if e else reported).append((v['sig'], path, v['msg'], e))
            if e is not None:
                known_entries.add(id(e))
        else:
            unreproduced.append({'sig': v['sig'], 'replay': path, 'status': st, 'msg': v['msg']})
            if e is None:
                try_next = [w for w in lst[1:]]
                for w in try_next:
                    p2 = write_replay(mod.ID, w)
                    if confirm(mod.ID, p2) == 'violation':
                        reported.append((w['sig'], p2, w['msg'], None))
                        break

    wall = time.time() - t0
    meta = mod.META
    cov = {
        'states': total['states'],
        'transitions': total['transitions'],
        'traces_validated_against_impl': total['validated'],
        'evaluations': total['evals'],
        'distinct_nontrivial': len(total['nontrivial']),
        'rule': (meta['rule'] + ' Also: ' + _addenda(mod)).strip(),
        'samples': total['samples'][:8] or ['(no sample recorded)'],
        'exhaustive': not total['capped'] and not total['errors'],
        'distinct_outcomes': len(total['outcomes']),
        'outcomes': dict(total['outcomes'].most_common(40)),
        'unspec_counts': dict(total['unspec']),
        'bounds': meta.get('bounds', {}).get(tier, ''),
        'shards': len(shards),
        'violation_signatures': len(total['violations']),
        'known_findings_seen': [f"{e['what']}" for (_, _, _, e) in known],
        'unreproduced': unreproduced,
        'pane_src': PANE_SRC,
    }
    for k, v in total['extra'].items():
        cov[k] = sorted(v, key=str) if isinstance(v, (set, frozenset)) else v
    ev = {
        'property_id': mod.ID,
        'tier': tier,
        'seed': seed,
        'level': 'model_checking',
        'coverage': cov,
        'assumptions': meta.get('assumptions', []),
        'wall_s': round(wall, 2),
        'violations': len(reported),
    }
    evdir = os.environ.get('VERIF_EVIDENCE_DIR') or os.path.join(VERIF, 'evidence')
    os.makedirs(evdir, exist_ok=True)
    with open(os.path.join(evdir, f'{mod.ID}.json'), 'w') as f:
        json.dump(ev, f, indent=1, sort_keys=True, default=str)
        f.write('\n')

    print(f"[{mod.ID}] tier={tier} seed={seed} states={cov['states']} transitions={cov['transitions']} "
          f"validated={cov['traces_validated_against_impl']} nontrivial={cov['distinct_nontrivial']} "
          f"outcomes={cov['distinct_outcomes']} unspec={sum(total['unspec'].values())} wall={wall:.1f}s")
    for (sig, path, msg, e) in known:
        print(f"KNOWN-FINDING: property={mod.ID} {e['what']}")
    for (sig, path, msg, e) in reported:
        print(f"  {msg}")
        print(f"VIOLATION property={mod.ID} replay={path}")
    if total['errors']:
        for e in total['errors'][:5]:
            sys.stderr.write(e + '\n')
        print(f"[{mod.ID}] HARNESS FAULT: {len(total['errors'])} shard error(s)")
        if not reported:
            return 3
    if reported:
        # (each reported violation was reproduced from its replay file in a fresh interpreter, so it stands even if
        #  another shard of the same run faulted)
        return 1
    if unreproduced and not reported:
        print(f"[{mod.ID}] HARNESS FAULT: {len(unreproduced)} candidate(s) did not reproduce from their replay file")
        return 3
    if total['capped']:
        print(f"[{mod.ID}] note: a time cap was hit; exhaustive=false")
    return 0
