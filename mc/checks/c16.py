"""
C16 - dataclass value semantics: equality, order, hash, frozen, copy/replace, repr.
Reference: a mirror standard-library dataclass with the same options and field flags + the algebraic laws.
"""
from __future__ import annotations

import copy
import dataclasses
import itertools
import typing as t
import warnings

from mc import core, grammar, values

ID = 'C16'
META = {
    'rule': "option cube eq x order x frozen x unsafe_hash (16) x class body {plain, own __eq__, own __hash__, both} x field flags (first "
            "field compare x hash{default,True,False} x repr; second field compare) = 1 536 real pane classes, each with a mirror "
            "dataclasses.dataclass; all 81 instance pairs over the grid {0,1,2}^2: ==, !=, <, <=, >, >= agree with the mirror (incl. "
            "TypeError), hashability class and hash-equality pattern agree with the mirror, equal instances hash equal, repr equals the "
            "mirror's (modulo class name); reflexive / symmetric / transitive / trichotomy laws on the grid; class creation refused "
            "(TypeError) exactly where the standard library refuses; frozen -> setattr raises FrozenInstanceError and delattr raises "
            "AttributeError, non-frozen -> setattr works and joins the set-field record; generic parameters are ignored by == "
            "(G[int](v) == G[Any](v) != Sibling(v)); histories of depth <= 3 over {setattr, copy, deepcopy, replace(good), replace(bad)} from "
            "four start states (incl. an empty set-field record) checked against a (values, set-record, sharing) model. "
            "Non-trivial: non-default option or flag setting; key = (options, body, flags) / history.",
    'assumptions': ["eq=False with order=True is UNSPEC (the standard library refuses it, pane allows it)"],
    'bounds': {'quick': 'full cube, grid {0,1,2}^2, histories depth 3', 'thorough': 'same cube with a three-field class and grid {0,1,2}^3; histories depth 4'},
}

OPTS = list(itertools.product([True, False], repeat=4))           # eq, order, frozen, unsafe_hash
BODIES = ['plain', 'eq', 'hash', 'both', 'hash_none', 'eq_hash_none']
FLAGS = [(c, h, r, c2) for c in (True, False) for h in (None, True, False) for r in (True, False) for c2 in (True, False)]
GRID = list(itertools.product((0, 1, 2), repeat=2))


def plan(tier, seed):
    return [{'o': i} for i in range(len(OPTS))] + [{'hist': True}]


def body_ns(body):
    ns: t.Dict[str, t.Any] = {}
    if body in ('eq', 'both'):
        def __eq__(self, other):
            return type(other) is type(self) and self.x == other.x
        ns['__eq__'] = __eq__
    if body in ('hash', 'both'):
        def __hash__(self):
            return 42
        ns['__hash__'] = __hash__
    if body in ('hash_none', 'eq_hash_none'):
        # written out by the user: explicit unless a user __eq__ stands next to it (then Python would have put it there anyway)
        ns['__hash__'] = None
    if body == 'eq_hash_none':
        def __eq__(self, other):  # noqa: F811
            return type(other) is type(self) and self.x == other.x
        ns['__eq__'] = __eq__
    return ns


def make_pair(pane, opt, body, flags, three=False):
    """(pane class or exception, mirror class or exception)"""
    eq, order, frozen, uh = opt
    c, h, r, c2 = flags
    fkw = dict(compare=c, repr=r)
    if h is not None:
        fkw['hash'] = h
    names = ['x', 'y'] + (['z'] if three else [])
    try:
        ns = {'__annotations__': {n: int for n in names}, 'x': pane.field(**fkw), 'y': pane.field(compare=c2), '__module__': 'mc.generated', **body_ns(body)}
        P = type('Sem', (pane.PaneBase,), ns, eq=eq, order=order, frozen=frozen, unsafe_hash=uh)
        grammar.pin(P)
    except Exception as e:  # noqa
        P = e
    try:
        ns = {'__annotations__': {n: int for n in names}, 'x': dataclasses.field(**fkw), 'y': dataclasses.field(compare=c2), **body_ns(body)}
        M = dataclasses.dataclass(eq=eq, order=order, frozen=frozen, unsafe_hash=uh)(type('Sem', (), ns))
    except Exception as e:  # noqa
        M = e
    return P, M


def op_result(f):
    try:
        return ('v', f())
    except TypeError:
        return ('TypeError', None)
    except Exception as e:  # noqa
        return (type(e).__name__, None)


def check_class(pane, res, oi, body, fi, tier):
    opt = OPTS[oi]
    flags = FLAGS[fi]
    eq, order, frozen, uh = opt
    three = tier == 'thorough'
    P, M = make_pair(pane, opt, body, flags, three)
    cell = {'o': oi, 'body': body, 'f': fi}
    cfg = f"eq={eq} order={order} frozen={frozen} unsafe_hash={uh} body={body} flags(compare,hash,repr,compare2)={flags}"
    sig = {'eq': eq, 'order': order, 'frozen': frozen, 'unsafe_hash': uh, 'body': body}
    res['states'] += 1
    if not eq and order:
        res['unspec']['eq_false_order_true'] += 1
        return
    if isinstance(M, Exception) or isinstance(P, Exception):
        res['evals'] += 1
        res['validated'] += 1
        res['outcomes']['creation_refused' if isinstance(M, Exception) else 'creation_ok'] += 1
        if isinstance(M, Exception) != isinstance(P, Exception):
            core.add_violation(res, {'kind': 'class_creation_differs_from_stdlib', **sig},
                               f"{cfg}: pane {'refuses: ' + core.sstr(P, 80) if isinstance(P, Exception) else 'accepts'} but the standard library "
                               f"{'refuses: ' + core.sstr(M, 80) if isinstance(M, Exception) else 'accepts'} the class", cell, 2)
        elif isinstance(P, Exception) and not isinstance(P, TypeError):
            core.add_violation(res, {'kind': 'class_creation_wrong_exception', **sig}, f"{cfg}: raised {type(P).__name__}", cell, 2)
        return
    res['nontrivial'].add(f"{opt}|{body}|{flags}")
    grid = GRID if not three else list(itertools.product((0, 1, 2), repeat=3))
    try:
        pi = [P.make_unchecked(*g) for g in grid]
        mi = [M(*g) for g in grid]
    except Exception as e:  # noqa
        core.add_violation(res, {'kind': 'construction_raises', 'exc': type(e).__name__, **sig}, f"{cfg}: building instances raised {e!r}", cell, 2)
        return
    # hashability class
    ph = op_result(lambda: hash(pi[0]))
    mh = op_result(lambda: hash(mi[0]))
    res['evals'] += 1
    if ph[0] != mh[0]:
        core.add_violation(res, {'kind': 'hashability_differs_from_rule_table', **sig},
                           f"{cfg}: hash(instance) -> {ph[0]} for pane, {mh[0]} for the standard-library mirror "
                           f"(__hash__ is {getattr(P, '__hash__', None)!r} vs {getattr(M, '__hash__', None)!r})", cell, 2)
    ops = [('==', lambda a, b: a == b), ('!=', lambda a, b: a != b), ('<', lambda a, b: a < b), ('<=', lambda a, b: a <= b),
           ('>', lambda a, b: a > b), ('>=', lambda a, b: a >= b)]
    n = len(grid)
    for i in range(n):
        # repr
        if i < 9:
            rp, rm = repr(pi[i]), repr(mi[i])
            if rp != rm:
                core.add_violation(res, {'kind': 'repr_differs', **sig}, f"{cfg}: repr {rp!r} vs mirror {rm!r}", cell, 2)
        for j in range(n):
            for name, f in ops:
                a = op_result(lambda: f(pi[i], pi[j]))
                b = op_result(lambda: f(mi[i], mi[j]))
                res['transitions'] += 1
                if a != b:
                    core.add_violation(res, {'kind': 'comparison_differs_from_mirror', 'op': name, **sig},
                                       f"{cfg}: {grid[i]} {name} {grid[j]} -> {a} for pane, {b} for the mirror dataclass", cell, 2)
            if ph[0] == 'v' and mh[0] == 'v':
                same_p = hash(pi[i]) == hash(pi[j])
                same_m = hash(mi[i]) == hash(mi[j])
                # (a field hashed but not compared - hash=True with compare=False - is the user's own inconsistency; the mirror agrees)
                if eq and body in ('plain',) and not (flags[0] is False and flags[1] is True) and pi[i] == pi[j] and not same_p:
                    core.add_violation(res, {'kind': 'equal_but_different_hash', **sig},
                                       f"{cfg}: {grid[i]} == {grid[j]} but their hashes differ", cell, 2)
                if same_p != same_m and body in ('plain', 'eq', 'hash_none', 'eq_hash_none') and i != j and (eq or uh):
                    core.add_violation(res, {'kind': 'hash_fields_differ_from_mirror', **sig},
                                       f"{cfg}: hash({grid[i]}) == hash({grid[j]}) is {same_p} for pane, {same_m} for the mirror", cell, 2)
    res['evals'] += n * n
    res['validated'] += n * n
    res['outcomes']['pairs'] += n * n
    # laws (plain bodies, eq on)
    if eq and body in ('plain', 'hash'):
        for i in range(n):
            if not (pi[i] == pi[i]):
                core.add_violation(res, {'kind': 'law_reflexive', **sig}, f"{cfg}: {grid[i]} != itself", cell, 2)
            for j in range(n):
                if (pi[i] == pi[j]) != (pi[j] == pi[i]):
                    core.add_violation(res, {'kind': 'law_symmetric', **sig}, f"{cfg}: == not symmetric on {grid[i]}, {grid[j]}", cell, 2)
                if order and flags[0] and flags[3]:
                    k = (pi[i] < pi[j]) + (pi[i] == pi[j]) + (pi[i] > pi[j])
                    if k != 1:
                        core.add_violation(res, {'kind': 'law_trichotomy', **sig},
                                           f"{cfg}: {grid[i]} vs {grid[j]}: {k} of <, ==, > hold", cell, 2)
                    if (pi[i] <= pi[j]) != (pi[i] < pi[j] or pi[i] == pi[j]):
                        core.add_violation(res, {'kind': 'law_le', **sig}, f"{cfg}: <= inconsistent on {grid[i]}, {grid[j]}", cell, 2)
        for i, j, k in itertools.product(range(0, n, 2), repeat=3):
            if pi[i] == pi[j] and pi[j] == pi[k] and not pi[i] == pi[k]:
                core.add_violation(res, {'kind': 'law_transitive', **sig}, f"{cfg}: == not transitive", cell, 2)
            if order and pi[i] < pi[j] and pi[j] < pi[k] and not pi[i] < pi[k]:
                core.add_violation(res, {'kind': 'law_transitive_lt', **sig}, f"{cfg}: < not transitive", cell, 2)
    # frozen / non-frozen attribute protocol
    x = P.make_unchecked(*grid[4])
    sa = op_result(lambda: setattr(x, 'x', 9))
    if frozen:
        if sa[0] != 'FrozenInstanceError' or x.x != grid[4][0]:
            core.add_violation(res, {'kind': 'frozen_setattr', **sig}, f"{cfg}: setattr on a frozen instance -> {sa[0]} (x is now {x.x})", cell, 2)
        da = op_result(lambda: delattr(x, 'x'))
        if da[0] != 'AttributeError' or not hasattr(x, 'x'):
            core.add_violation(res, {'kind': 'frozen_delattr', **sig}, f"{cfg}: delattr on a frozen instance -> {da[0]}", cell, 2)
    else:
        x2 = P.make_unchecked(y=1, x=1) if False else P.make_unchecked(*grid[0])
        before = set(x2.__pane_set__)
        r = op_result(lambda: setattr(x2, 'y', 7))
        if r[0] != 'v' or x2.y != 7 or 'y' not in x2.__pane_set__ or not before <= set(x2.__pane_set__):
            core.add_violation(res, {'kind': 'nonfrozen_setattr', **sig},
                               f"{cfg}: setattr on a non-frozen instance -> {r[0]}, y={x2.y}, set-record {sorted(x2.__pane_set__)}", cell, 2)


def check_generic(pane, res):
    from mc.classes_gen import new_class
    T_ = t.TypeVar('T_')
    G = new_class('GenEq', (pane.PaneBase, t.Generic[T_]), {'__annotations__': {'v': T_, 'w': int}, 'w': 0, '__module__': 'mc.generated'})
    S = type('Sibling', (pane.PaneBase,), {'__annotations__': {'v': int, 'w': int}, 'w': 0, '__module__': 'mc.generated'})
    Sub = type('Sub', (G[int],), {'__annotations__': {}, '__module__': 'mc.generated'})
    forms = {'G': G, 'G[int]': G[int], 'G[Any]': G[t.Any], 'G[float]': G[float], 'Sibling': S, 'Sub(G[int])': Sub}
    # two parameters, bound in one step and in two (the partially bound class is subscripted again)
    U_ = t.TypeVar('U_')
    H = new_class('GenEq2', (pane.PaneBase, t.Generic[T_, U_]),
                  {'__annotations__': {'v': T_, 'u': t.Optional[U_], 'w': int}, 'u': None, 'w': 0, '__module__': 'mc.generated'})
    forms.update({'H': H, 'H[int,str]': H[int, str], 'H[int,U][str]': H[int, U_][str], 'H[T,str][int]': H[T_, str][int],
                  'H[Any,Any]': H[t.Any, t.Any]})
    fam = lambda n: n.split('[')[0] if n[0] in 'GH' else None  # noqa: E731
    for (na, A), (nb, B) in itertools.product(forms.items(), repeat=2):
        for va, vb in itertools.product((5, 6), repeat=2):
            try:
                a, b = A.make_unchecked(va), B.make_unchecked(vb)
                got = a == b
            except Exception as e:  # noqa
                got = type(e).__name__
            same_family = fam(na) is not None and fam(na) == fam(nb)
            # (a real subclass of a subscripted generic is a class of its own: equal to itself only)
            want = (va == vb) if (same_family or na == nb) else False
            res['evals'] += 1
            res['validated'] += 1
            res['transitions'] += 1
            res['nontrivial'].add(f"generic|{na}|{nb}")
            if got != want:
                core.add_violation(res, {'kind': 'generic_equality', 'a': na, 'b': nb},
                                   f"{na}({va}) == {nb}({vb}) is {got}, expected {want} (equality compares the class ignoring generic parameters)",
                                   {'generic': True, 'a': na, 'b': nb}, 2)
            # ordering is consistent with equality: where == looks at the fields (same class modulo parameters), so do < <= > >=
            if not isinstance(got, str):
                for opname, op, fn in (('<', lambda x, y: x < y, lambda x, y: x < y), ('<=', lambda x, y: x <= y, lambda x, y: x <= y),
                                       ('>', lambda x, y: x > y, lambda x, y: x > y), ('>=', lambda x, y: x >= y, lambda x, y: x >= y)):
                    try:
                        og = op(a, b)
                    except TypeError:
                        og = 'TypeError'
                    except Exception as e:  # noqa
                        og = type(e).__name__
                    ow = fn(va, vb) if (same_family or na == nb) else 'TypeError'
                    res['evals'] += 1
                    res['transitions'] += 1
                    if og != ow:
                        core.add_violation(res, {'kind': 'generic_ordering', 'a': na, 'b': nb, 'op': opname},
                                           f"{na}({va}) {opname} {nb}({vb}) is {og}, expected {ow} (== between them is {got}: ordering must look at the same classes as equality)",
                                           {'generic': True, 'a': na, 'b': nb}, 2)
            if same_family and va == vb and got is True:
                try:
                    if hash(a) != hash(b):
                        core.add_violation(res, {'kind': 'generic_equal_but_different_hash', 'a': na, 'b': nb},
                                           f"{na}({va}) == {nb}({vb}) but hashes differ", {'generic': True, 'a': na, 'b': nb}, 2)
                except TypeError:
                    pass


def check_derived(pane, res):
    """A class derived from another pane class compares, orders and hashes over ALL its fields (inherited first)."""
    for (eq, order, frozen, uh) in OPTS:
        if not eq and order:
            continue
        for gen in (1, 2):
            cell = {'derived': True, 'opts': [eq, order, frozen, uh], 'gen': gen}
            cfg = f"derived class (generation {gen}) eq={eq} order={order} frozen={frozen} unsafe_hash={uh}"
            try:
                PB = type('DBase', (pane.PaneBase,), {'__annotations__': {'a': int, 'b': int}, '__module__': 'mc.generated'},
                          eq=eq, order=order, frozen=frozen, unsafe_hash=uh)
                PD = type('DDer', (PB,), {'__annotations__': {'c': int, 'note': int}, 'note': pane.field(default=0, compare=False),
                                          '__module__': 'mc.generated'})
                MB = dataclasses.dataclass(eq=eq, order=order, frozen=frozen, unsafe_hash=uh)(type('DBase', (), {'__annotations__': {'a': int, 'b': int}}))
                MD = dataclasses.dataclass(eq=eq, order=order, frozen=frozen, unsafe_hash=uh)(
                    type('DDer', (MB,), {'__annotations__': {'c': int, 'note': int}, 'note': dataclasses.field(default=0, compare=False)}))
                if gen == 2:
                    PD = type('DDer2', (PD,), {'__annotations__': {'d': int}, 'd': 0, '__module__': 'mc.generated'})
                    MD = dataclasses.dataclass(eq=eq, order=order, frozen=frozen, unsafe_hash=uh)(type('DDer2', (MD,), {'__annotations__': {'d': int}, 'd': 0}))
            except Exception as e:  # noqa
                core.add_violation(res, {'kind': 'derived_creation', 'exc': type(e).__name__}, f"{cfg}: {e!r}", cell, 3)
                continue
            grid = list(itertools.product((0, 1), repeat=3))
            extra = [(0,), (1,)] if gen == 2 else [()]
            pi = [PD.make_unchecked(*g, 5, *x) for g in grid for x in extra]
            mi = [MD(*g, 5, *x) for g in grid for x in extra]
            res['states'] += 1
            res['nontrivial'].add(f"derived|{eq}|{order}|{frozen}|{uh}|{gen}")
            ops = [('==', lambda a, b: a == b), ('<', lambda a, b: a < b), ('<=', lambda a, b: a <= b), ('>', lambda a, b: a > b), ('>=', lambda a, b: a >= b)]
            for i in range(len(pi)):
                for j in range(len(pi)):
                    for name, f in ops:
                        a = op_result(lambda: f(pi[i], pi[j]))
                        b = op_result(lambda: f(mi[i], mi[j]))
                        res['transitions'] += 1
                        if a != b:
                            core.add_violation(res, {'kind': 'derived_comparison_differs_from_mirror', 'op': name, 'order': order},
                                               f"{cfg}: {pi[i]!r} {name} {pi[j]!r} -> {a}, the mirror dataclass hierarchy gives {b}", cell, 3)
                    if eq and order:
                        k = op_result(lambda: (pi[i] < pi[j]) + (pi[i] == pi[j]) + (pi[i] > pi[j]))
                        if k != ('v', 1):
                            core.add_violation(res, {'kind': 'derived_trichotomy'}, f"{cfg}: {pi[i]!r} vs {pi[j]!r}: {k} of <, ==, > hold", cell, 3)
                    ha, hb = op_result(lambda: hash(pi[i]) == hash(pi[j])), op_result(lambda: hash(mi[i]) == hash(mi[j]))
                    if ha != hb and (eq or uh):
                        core.add_violation(res, {'kind': 'derived_hash_differs_from_mirror'},
                                           f"{cfg}: hash equality of {pi[i]!r} and {pi[j]!r} is {ha}, mirror {hb}", cell, 3)
            res['evals'] += len(pi) ** 2
            res['validated'] += len(pi) ** 2
            rp, rm = repr(pi[3]), repr(mi[3])
            if rp != rm:
                core.add_violation(res, {'kind': 'derived_repr'}, f"{cfg}: repr {rp!r} vs mirror {rm!r}", cell, 3)


# ------------------------------------------------------------------ histories

def check_histories(pane, res, depth):
    from pane.errors import ConvertError
    H = grammar.pin(type('Hist', (pane.PaneBase,), {'__annotations__': {'n': int, 'items': t.List[int], 'tag': str}, 'n': 0,
                                                   'items': pane.field(default_factory=list), 'tag': pane.field(default='t', exclude=True),   # (kept out of OUTPUT only)
                                                   '__module__': 'mc.generated'},
                         frozen=False))
    starts = {'Cls()': lambda: H(), 'Cls(n=1)': lambda: H(n=1), 'Cls(items=[1])': lambda: H(items=[1]),
              'from_data({})': lambda: pane.from_data({}, H), "from_data({'n':2,'tag':'u'})": lambda: pane.from_data({'n': 2, 'tag': 'u'}, H)}
    start_model = {'Cls()': ({'n': 0, 'items': [], 'tag': 't'}, set()), 'Cls(n=1)': ({'n': 1, 'items': [], 'tag': 't'}, {'n'}),
                   'Cls(items=[1])': ({'n': 0, 'items': [1], 'tag': 't'}, {'items'}), 'from_data({})': ({'n': 0, 'items': [], 'tag': 't'}, set()),
                   "from_data({'n':2,'tag':'u'})": ({'n': 2, 'items': [], 'tag': 'u'}, {'n', 'tag'})}
    OPS = ['setattr_n', 'setattr_items', 'copy', 'deepcopy', 'replace_good', 'replace_tag', 'replace_bad']
    for sname in starts:
        for hist in itertools.chain.from_iterable(itertools.product(OPS, repeat=d) for d in range(1, depth + 1)):
            x = starts[sname]()
            vals, rec = start_model[sname]
            vals, rec = {k: (list(v) if isinstance(v, list) else v) for k, v in vals.items()}, set(rec)
            problem = None
            k = 10
            for op in hist:
                k += 1
                prev = x
                try:
                    if op == 'setattr_n':
                        x.n = k
                        vals['n'] = k
                        rec.add('n')
                    elif op == 'setattr_items':
                        x.items = [k]
                        vals['items'] = [k]
                        rec.add('items')
                    elif op == 'copy':
                        x = copy.copy(prev)
                        if x is prev or x.items is not prev.items:
                            problem = "copy.copy must return a new instance sharing the field objects"
                    elif op == 'deepcopy':
                        x = copy.deepcopy(prev)
                        if x is prev or x.items is prev.items:
                            problem = "copy.deepcopy shares the mutable field with the original"
                    elif op == 'replace_good':
                        x = prev.__replace__(n=k)
                        vals['n'] = k
                        rec.add('n')
                    elif op == 'replace_tag':
                        x = prev.__replace__(tag=f"t{k}")
                        vals['tag'] = f"t{k}"
                        rec.add('tag')
                    elif op == 'replace_bad':
                        try:
                            prev.__replace__(n='not an int')
                            problem = "replace with an ill-kinded value did not raise"
                        except ConvertError:
                            pass
                except Exception as e:  # noqa
                    problem = f"{op} raised {type(e).__name__}: {e}"
                if problem is None:
                    got = {f: getattr(x, f) for f in vals}
                    if not values.typed_eq(got, vals):
                        problem = f"after {op}: fields {got}, expected {vals}"
                    elif set(x.__pane_set__) != rec:
                        problem = f"after {op}: set-field record {sorted(x.__pane_set__)}, expected {sorted(rec)}"
                    elif type(x) is not H:
                        problem = f"after {op}: type {type(x).__name__}"
                    elif op in ('copy', 'deepcopy') and not (x == prev):
                        problem = f"{op} is not equal to the original"
                res['transitions'] += 1
                if problem:
                    break
            res['states'] += 1
            res['evals'] += 1
            res['validated'] += 1
            res['nontrivial'].add(f"hist|{sname}|{'>'.join(hist)}")
            if problem:
                core.add_violation(res, {'kind': 'history', 'op': op, 'start_empty_record': not start_model[sname][1]},
                                   f"start {sname}, history {list(hist)}: {problem}", {'hist': True, 'start': sname, 'ops': list(hist)}, len(hist))
    res['outcomes']['histories'] += 1


def check_frozen_histories(pane, res, depth):
    """A frozen instance that holds a NON-frozen, hashable dataclass, in a class whose validation hook rejects some values:
    all histories of hashing, editing the inner instance, a construction the hook rejects (directly and through from_data),
    assignment / deletion attempts and copies.  After every step: assignment and deletion still raise, and the instance is
    equal to - and hashes like - an instance built afresh from its current field values."""
    import dataclasses
    from pane.errors import ConvertError

    def post(self):
        if self.n == 13:
            raise ValueError('unlucky')
    Inner = grammar.pin(type('FzInner', (pane.PaneBase,), {'__annotations__': {'x': int}, '__module__': 'mc.generated'}, frozen=False, unsafe_hash=True))
    Outer = grammar.pin(type('FzOuter', (pane.PaneBase,), {'__annotations__': {'inner': Inner, 'n': int}, '__post_init__': post, '__module__': 'mc.generated'}))
    Child = grammar.pin(type('FzChild', (Outer,), {'__annotations__': {'m': int}, 'm': 0, '__module__': 'mc.generated'}))    # inherits frozen and the hook
    OPS = ['hash', 'edit_inner', 'rejected_construct', 'rejected_from_data', 'setattr', 'delattr', 'copy']
    for cname, C in (('Outer', Outer), ('Child(Outer)', Child)):
        for hist in itertools.chain.from_iterable(itertools.product(OPS, repeat=d) for d in range(1, depth + 1)):
            o = C(Inner(1), 2)
            model = {'x': 1, 'n': 2}
            problem = None
            k = 20
            for op in hist:
                k += 1
                try:
                    if op == 'hash':
                        hash(o)
                    elif op == 'edit_inner':
                        o.inner.x = k
                        model['x'] = k
                    elif op == 'rejected_construct':
                        try:
                            C(Inner(0), 13)
                            problem = "the hook did not reject n=13"
                        except ValueError:
                            pass
                    elif op == 'rejected_from_data':
                        try:
                            pane.from_data({'inner': {'x': 0}, 'n': 13}, C)
                            problem = "the hook did not reject n=13 (from_data)"
                        except ConvertError:
                            pass
                    elif op == 'setattr':
                        try:
                            o.n = 5
                            problem = f"assignment to a field of a frozen instance succeeded (now {o!r})"
                        except dataclasses.FrozenInstanceError:
                            pass
                    elif op == 'delattr':
                        try:
                            del o.n
                            problem = "deleting a field of a frozen instance succeeded"
                        except (dataclasses.FrozenInstanceError, AttributeError):
                            pass
                    elif op == 'copy':
                        o = copy.copy(o)
                except Exception as e:  # noqa
                    problem = f"{op} raised {type(e).__name__}: {e}"
                res['transitions'] += 1
                if problem is None:
                    fresh = C.make_unchecked(inner=Inner.make_unchecked(x=model['x']), n=model['n'])
                    if (o.inner.x, o.n) != (model['x'], model['n']):
                        problem = f"after {op}: fields ({o.inner.x}, {o.n}), expected ({model['x']}, {model['n']})"
                    elif not (o == fresh):
                        problem = f"after {op}: {o!r} != an instance built afresh from the same values"
                    elif hash(o) != hash(fresh):
                        problem = f"after {op}: {o!r} == a fresh {fresh!r} but their hashes differ"
                if problem:
                    break
            res['states'] += 1
            res['evals'] += 1
            res['validated'] += 1
            res['nontrivial'].add(f"frozen_hist|{cname}|{'>'.join(hist)}")
            if problem:
                core.add_violation(res, {'kind': 'frozen_history', 'op': op, 'cls': cname},
                                   f"{cname} (frozen, holds a non-frozen hashable instance, hook rejects n=13), history {list(hist)}: {problem}",
                                   {'hist': True, 'frozen': True, 'cls': cname, 'ops': list(hist)}, len(hist))


def run_shard(shard, tier):
    pane = core.import_pane()
    warnings.simplefilter('ignore')
    res = core.new_result()
    if shard.get('hist'):
        check_histories(pane, res, 3 if tier == 'quick' else 4)
        check_frozen_histories(pane, res, 3 if tier == 'quick' else 4)
        check_generic(pane, res)
        check_derived(pane, res)
        res['samples'].append({'start': 'from_data({})', 'history': ['copy', 'setattr_n', 'replace_bad']})
        return res
    for body in BODIES:
        for fi in range(len(FLAGS)):
            try:
                check_class(pane, res, shard['o'], body, fi, tier)
            except Exception as e:  # noqa
                import traceback
                tb = traceback.extract_tb(e.__traceback__)[-1]
                core.add_violation(res, {'kind': 'oracle_exception', 'exc': type(e).__name__, 'where': tb.lineno},
                                   f"class {shard['o']} {body} {fi} raised {type(e).__name__}: {core.sstr(e)} (line {tb.lineno})",
                                   {'o': shard['o'], 'body': body, 'f': fi}, 9)
    if shard['o'] == 0:
        res['samples'].append({'options': dict(zip(('eq', 'order', 'frozen', 'unsafe_hash'), OPTS[0])), 'body': 'plain', 'flags': FLAGS[5], 'grid': GRID[:4]})
    return res


def replay(cell):
    pane = core.import_pane()
    warnings.simplefilter('ignore')
    res = core.new_result()
    if cell.get('hist') or cell.get('generic') or cell.get('derived'):
        check_histories(pane, res, 4)
        check_frozen_histories(pane, res, 4)
        check_generic(pane, res)
        check_derived(pane, res)
        out = [v for lst in res['violations'].values() for v in lst]
        return [v for v in out if v['cell'] == cell] or out
    for tier in ('quick', 'thorough'):
        check_class(pane, res, cell['o'], cell['body'], cell['f'], tier)
    return [v for lst in res['violations'].values() for v in lst]
