"""
C06 - typed values are fixed points of convert.
"""
from __future__ import annotations

import typing as t
import warnings

from mc import core, e1, grammar, values, refmodel
from mc.refmodel import OK, DcImage
from mc.checks import c05

ID = 'C06'
META = {
    'rule': "cells = (grammar + Range / ValueOrList / internally tagged union / HasConverter leaves) x spellings x members; for every "
            "member the NATIVELY built typed value (the reference model's exactly-typed image: Fraction, Decimal, date/time, paths, "
            "compiled patterns, sets, deques, Counter/OrderedDict/defaultdict, enum members, dataclass instances built by the "
            "constructor and by make_unchecked, alone and nested) must satisfy convert(x, T) == x with identical types at every "
            "depth; the value pane itself produced (x1 = from_data(v, T)) must satisfy convert(x1, T) == x1 and a second convert is "
            "the identity; constructors must store already-typed arguments unchanged. Excluded per statement: externally / adjacently "
            "tagged unions; dataclasses whose output form is not enabled on input. Non-trivial: the typed value differs from its "
            "serialised form (non-interchange type or container of such); key = (root, python types in the value).",
    'assumptions': ["the set-field record is not part of value equality here (C14 checks it)", "Any / bare containers: only plain interchange data counts as a typed value"],
    'bounds': {'quick': 'grammar depth<=2(+3 reduced) x members', 'thorough': 'thorough grammar x members'},
}

plan = e1.plan
EXTRA = ['range_int', 'range_float', 'vol_int', 'vol_str', 'vol_tuple', 'vol_list', 'vol_range', 'hasconv']


def expressions(tier):
    # (dc_baddef: a fixture whose own default is not a value of its field's type - it has no typed values to be fixed points;
    #  dc_setpost: a fixture whose hook refuses the field its own output always carries)
    out = [e for e in grammar.expressions(tier) if not ({'dc_baddef', 'dc_setpost'} & e1.leaves_of(e))]
    for leaf in EXTRA:
        out.append(leaf)
        for c in ('list', 'optional', 'tuplevar'):
            out.append([c, leaf])
        out.append(['dict', 'str', leaf])
        out.append(['struct', ['k', leaf]])
        out.append(['union', leaf, 'none'])
        out.append(['tuple', 'int', leaf])
    # (convert reads a value's OWN serialised form: of the tagged unions only the internal layout is in scope, see the statement)
    out += [e for e in grammar.tagged_expressions() if e1.leaves_of(e) & set(grammar.TAGGED) <= {'tag_int'}]
    return out


def members_only(ast, tier):
    mem = refmodel.members(ast, limit=8)
    big = [next(values.inflate(m, 70), None) for m in mem[:2]]        # the same members with about 40 elements
    return mem + [b for b in big if b is not None]


def natives(image, mode):
    """Turn a model image into real Python values; dataclass images become instances (mode: 'init' | 'unchecked')."""
    if isinstance(image, DcImage):
        cls = grammar.dc_class(image.leaf)
        spec = grammar.DC_SPECS[image.leaf]
        kw = {k: natives(x, mode) for k, x in image.fields.items()
              if any(f['name'] == k and f.get('init', True) for f in spec['fields'])}
        return cls(**kw) if mode == 'init' else cls.make_unchecked(**kw)
    ty = type(image)
    if ty in (list, tuple):
        return ty(natives(x, mode) for x in image)
    import collections
    if ty is collections.deque:
        return collections.deque(natives(x, mode) for x in image)
    if isinstance(image, dict):
        d = {k: natives(x, mode) for k, x in image.items()}
        if ty is collections.defaultdict:
            return collections.defaultdict(None, d)
        return ty(d)
    return image


def has_dc(image):
    return refmodel._contains_dc(image) or isinstance(image, DcImage)


def skip_cell(ast):
    for leaf in e1.leaves_of(ast):
        spec = grammar.DC_SPECS.get(leaf)
        if spec is not None and not c05.output_enabled_on_input(spec):
            return True
    return False


def type_names(x, acc=None, depth=0):
    acc = set() if acc is None else acc
    acc.add(type(x).__name__)
    if depth < 3:
        if isinstance(x, (list, tuple, set, frozenset)):
            for e in list(x)[:3]:
                type_names(e, acc, depth + 1)
        elif isinstance(x, dict):
            for e in list(x.values())[:3]:
                type_names(e, acc, depth + 1)
    return acc


def judge(ctx, ast, sp, T, vi, v):
    from pane.errors import ConvertError
    pane = ctx.pane
    res = ctx.res
    if skip_cell(ast):
        res['unspec']['output_form_not_enabled_on_input'] += 1
        return
    if e1.leaves_of(ast) & {'tag_ext', 'tag_adj', 'tag_num', 'dc_tuptag'}:
        # the statement's carve-out: convert serialises a value by its OWN type, so externally / adjacently tagged unions
        # (which wrap the variant) are not among the types a typed value is a fixed point of
        res['unspec']['externally_or_adjacently_tagged'] += 1
        return
    if not values.is_interchange(v) and c05.IDENTITY_LEAVES & e1.leaves_of(ast):
        return
    root = e1.root_of(ast)
    cost = e1.size(ast) * 10 + e1.vsize(v)
    cell = e1.cell_desc(ast, sp, vi, v)
    modelled = not (set(EXTRA) & e1.leaves_of(ast))
    cands: t.List[t.Tuple[str, t.Any, t.Any]] = []       # (how built, typed value, model image or None)
    if modelled:
        r = refmodel.ref(ast, v)
        if r[0] == OK:
            img = r[1]
            try:
                cands.append(('native', natives(img, 'unchecked'), img))
                if has_dc(img):
                    cands.append(('native via constructors', natives(img, 'init'), img))
            except Exception as e:  # noqa: constructor refused an already-typed argument
                core.add_violation(res, {'kind': 'constructor_refuses_typed_argument', 'root': root, 'exc': type(e).__name__,
                                         'leaves': sorted(e1.leaves_of(ast))[:3]},
                                   f"{grammar.render(ast)}: building the typed value for {values.expr(v)[:60]} through the "
                                   f"dataclass constructor raised {type(e).__name__}: {core.sstr(e, 120)}", cell, cost)
    try:
        x1 = pane.from_data(values.fresh(v), T)
        cands.append(('from_data', x1, None))
    except Exception:  # noqa
        pass
    if vi == 0:
        for x in ext_natives(ast):
            cands.append(('native', x, None))
    for how, x, img in cands:
        res['evals'] += 1
        res['transitions'] += 1
        desc = f"convert({core.srepr(x, 70)}, {grammar.render(ast)}) [{how}]"
        try:
            y = pane.convert(x, T)
        except ConvertError as e:
            ov = c05.union_overlap(pane, ast, x)
            core.add_violation(res, _sig('typed_value_refused', ast, root, ov),
                               f"{desc} raised ConvertError: {core.sstr(e, 140)}", cell, cost)
            continue
        except Exception as e:  # noqa
            core.add_violation(res, {'kind': 'convert_raises', 'exc': type(e).__name__, 'site': core.site_of(e),
                                     'type_root': _type_root(ast)},
                               f"{desc} raised {type(e).__name__}: {core.sstr(e, 140)}", cell, cost)
            continue
        res['validated'] += 1
        names = type_names(x)
        if names - {'int', 'float', 'str', 'bool', 'NoneType', 'list', 'dict', 'bytes', 'complex'}:
            res['nontrivial'].add(f"{root}|{'+'.join(sorted(names))[:60]}")
        problem = refmodel.match(img, y, check_set=False) if img is not None else (None if same(x, y) else 'differs')
        if problem:
            ov = c05.union_overlap(pane, ast, x) or vol_overlap(pane, ast, x)
            core.add_violation(res, _sig('not_a_fixed_point', ast, root, ov),
                               f"{desc} returned {core.srepr(y, 80)} ({type(y).__name__}): {problem}", cell, cost)
            continue
        res['outcomes']['fixed_point'] += 1
        try:
            z = pane.convert(y, T)
        except Exception as e:  # noqa
            core.add_violation(res, {'kind': 'second_convert_raises', 'root': root, 'type_root': _type_root(ast)},
                               f"{desc} succeeded but converting the result again raised {type(e).__name__}", cell, cost)
            continue
        if not same(y, z):
            core.add_violation(res, {'kind': 'not_idempotent', 'root': root, 'type_root': _type_root(ast)},
                               f"{desc} -> {core.srepr(y, 60)} but convert of that -> {core.srepr(z, 60)}", cell, cost)


def _vol_natives(leaf):
    """ValueOrList values built through the class's own constructors (not through a conversion)."""
    from pane.types import ValueOrList
    table = {
        'vol_int': [('val', 5), ('list', [1, 2]), ('list', []), ('list', [5])],
        'vol_str': [('val', 'a'), ('list', ['a', 'b']), ('list', ['a'])],
        'vol_tuple': [('val', (1, 2)), ('list', [(1, 2), (3, 4)]), ('list', [(1, 2)])],
        'vol_list': [('val', [1, 2]), ('list', [[1], [2, 3]]), ('val', []), ('list', []), ('list', [[]])],
    }
    return [ValueOrList.from_val(x) if k == 'val' else ValueOrList.from_list(x) for k, x in table.get(leaf, [])]


def vol_overlap(pane, ast, x) -> bool:
    """ValueOrList[T] is the untagged union T | List[T]: a LIST value whose serialised form T itself accepts as one value reads
    back as that single value (ValueOrList[List[int]].from_list([]) -> [] -> from_val([])) - the documented untagged ambiguity."""
    import typing
    params = {'vol_int': int, 'vol_str': str, 'vol_tuple': typing.Tuple[int, int], 'vol_list': typing.List[int]}
    leaf = next((l for l in e1.leaves_of(ast) if l in params), None)
    if leaf is None:
        return False

    def find(v, depth=0):
        if type(v).__name__ == 'ValueOrList':
            yield v
        elif depth < 3 and isinstance(v, (list, tuple)):
            for e in v:
                yield from find(e, depth + 1)
        elif depth < 3 and isinstance(v, dict):
            for e in v.values():
                yield from find(e, depth + 1)
    for vol in find(x):
        if not vol._is_val:
            try:
                # the LIST form as the statement defines it - each element serialised as T, in a list - computed here, not by the
                # converter under test; the ambiguity is real only if T itself takes that list as one value
                as_list = [pane.into_data(e, params[leaf]) for e in vol._inner]
                pane.from_data(as_list, params[leaf])
                return True
            except Exception:  # noqa
                pass
    return False


def ext_natives(ast):
    """Natively built typed values for the helper types the reference model does not cover, alone and one level inside the
    containers of expressions()."""
    if isinstance(ast, str):
        return _vol_natives(ast)
    head = ast[0]
    if head in ('list', 'tuplevar', 'optional') and isinstance(ast[1], str):
        inner = _vol_natives(ast[1])
        return [[x] for x in inner] if head == 'list' else [(x, x) for x in inner] if head == 'tuplevar' else inner
    if head == 'dict' and ast[1] == 'str' and isinstance(ast[2], str):
        return [{'k': x} for x in _vol_natives(ast[2])]
    if head == 'struct' and isinstance(ast[1][1], str):
        return [{ast[1][0]: x} for x in _vol_natives(ast[1][1])]
    if head == 'union' and isinstance(ast[1], str):
        return _vol_natives(ast[1])
    if head == 'tuple' and len(ast) == 3 and ast[1] == 'int' and isinstance(ast[2], str):
        return [(1, x) for x in _vol_natives(ast[2])]
    return []


def field_converter_arguments(pane, res):
    """A dataclass whose fields carry their own converter= : the constructor still accepts already-typed arguments unchanged."""
    import typing
    import fractions
    from pane.convert import make_converter
    Inner = grammar.pin(type('FcInner', (pane.PaneBase,), {'__annotations__': {'n': int}, '__module__': 'mc.generated'}))
    ns = {'__annotations__': {'tags': typing.Set[int], 'inner': Inner, 'ratio': fractions.Fraction, 'names': typing.Tuple[str, ...]},
          'tags': pane.field(converter=make_converter(typing.Set[int])), 'inner': pane.field(converter=make_converter(Inner)),
          'ratio': pane.field(converter=make_converter(fractions.Fraction)), 'names': pane.field(converter=make_converter(typing.Tuple[str, ...])),
          '__module__': 'mc.generated'}
    H = grammar.pin(type('FcHolder', (pane.PaneBase,), ns))
    typed = dict(tags={1, 2, 3}, inner=Inner.make_unchecked(n=5), ratio=fractions.Fraction(1, 3), names=('a', 'b'))
    cell = {'ast': 'field_converter_arguments', 'sp': [0, 0], 'vi': -2, 'v': 'None'}
    res['states'] += 1
    res['evals'] += 2
    res['validated'] += 2
    res['transitions'] += 3
    res['nontrivial'].add('field_converter_arguments')
    try:
        h = H(**typed)
        bad = next((k for k, v in typed.items() if not values.typed_eq(getattr(h, k), v) and getattr(h, k) != v), None)
        problem = f"field {bad} is {getattr(h, bad)!r}, the argument was {typed[bad]!r}" if bad else None
        if not problem:
            h2 = pane.convert(h, H)
            problem = None if h2 == h else f"convert(instance, its class) returned {h2!r}"
    except Exception as e:  # noqa
        problem = f"raised {type(e).__name__}: {core.sstr(e, 120)}"
    if problem:
        core.add_violation(res, {'kind': 'constructor_refuses_typed_argument', 'root': 'field_converter', 'exc': problem.split(':')[0][:20], 'leaves': []},
                           f"a dataclass whose fields have converter=...: building it from already-typed arguments {core.srepr(typed, 100)}: {problem}", cell, 5)


def _sig(kind, ast, root, ov):
    tr = _type_root(ast)
    if tr or ov:
        return {'kind': kind, 'type_root': tr, 'union_overlap': bool(ov)}
    return {'kind': kind, 'type_root': None, 'union_overlap': False, 'root': root, 'leaves': sorted(e1.leaves_of(ast))[:3]}


def _type_root(ast):
    lv = e1.leaves_of(ast)
    if lv & {'range_int', 'range_float', 'vol_range'}:
        return 'pane.types.Range'
    if lv & {'vol_int', 'vol_str', 'vol_tuple', 'vol_list'}:
        return 'pane.types.ValueOrList'
    return None


def same(a, b):
    if values.typed_eq(a, b):
        return True
    try:
        return type(a) is type(b) and bool(a == b) and not isinstance(a, (list, tuple, dict, set, frozenset))
    except Exception:  # noqa
        return False


def run_shard(shard, tier):
    res = e1.run_shard(shard, tier, judge, value_fn=members_only, expr_fn=expressions)
    if shard.get('i') == 0:
        field_converter_arguments(core.import_pane(), res)
    return res


def replay(cell):
    if cell.get('ast') == 'field_converter_arguments':
        res = core.new_result()
        field_converter_arguments(core.import_pane(), res)
        return [v for lst in res['violations'].values() for v in lst]
    return e1.replay(cell, judge, value_fn=members_only)
