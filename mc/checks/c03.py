"""
C03 - the fast pass (try_convert) fails iff the diagnostic pass (collect_errors) produces an error tree.
Purely internal oracle, no reference model.
"""
from __future__ import annotations

import collections
import datetime
import decimal
import fractions
import pathlib
import re
import typing as t

from mc import core, e1, grammar, values

ID = 'C03'
META = {
    'rule': "cells = (extended grammar incl. user conditions, three tagged layouts, HasConverter, ValueOrList, Range, ndarray, "
            "dataclasses with raising __post_init__ and init=False fields) x spellings x (members + single deviations + POOL + a "
            "typed-value pool of Fractions, Decimals, dates, paths, patterns, enum members, dataclass instances, sets); for "
            "conv = make_converter(T): try_convert(v) returns <=> collect_errors(v) is None; convert(v) never raises RuntimeError; "
            "every non-None node is an ErrorNode and no composite node holds a None child. Non-trivial: value reaches below the root; "
            "key = (root, fast outcome, diagnostic outcome, value kind).",
    'assumptions': ["a cell where one pass lets a foreign exception escape is C04's finding and is only counted here"],
    'bounds': {'quick': 'extended grammar depth<=2(+3 reduced), 1 deviation', 'thorough': 'thorough grammar, 1 deviation on 5 members'},
}

plan = e1.plan


def typed_pool():
    return [
        fractions.Fraction(1, 3), decimal.Decimal('1.5'), decimal.Decimal('NaN'), datetime.date(2023, 9, 5),
        datetime.time(11, 11, 11), datetime.datetime(2023, 9, 5, 11, 11, 11), pathlib.PurePosixPath('a/b'), pathlib.Path('a'),
        re.compile('a+'), re.compile(b'a+'), grammar.EnumInt.A, grammar.EnumStr.X, grammar.EnumMixed.N, grammar.EnumTuple.P,
        {1, 2}, frozenset({'a'}), collections.deque([1]), collections.Counter('aab'), collections.OrderedDict(a=1),
        grammar.SubStr('s'), grammar.SubInt(4), grammar.SubList([1]), grammar.SubDict(a=1), range(3), object(),
        grammar.dc_class('dc_struct').make_unchecked(a=1, b='s'), grammar.dc_class('dc_both').make_unchecked(a=1),
        grammar.dc_class('dc_post').make_unchecked(a=1), grammar.dc_class('dc_noinit').make_unchecked(a=1),
        [fractions.Fraction(1, 2)], {'a': decimal.Decimal(1)}, (grammar.EnumInt.B,), [datetime.date(2023, 1, 1)],
    ]


_TP: t.List[t.Any] = []


def values_c03(ast, tier):
    global _TP
    if not _TP:
        _TP = typed_pool()
        try:
            import numpy
            _TP += [numpy.array([1, 2]), numpy.int64(3), numpy.str_('s')]
        except ImportError:
            pass
    return e1.values_for(ast, tier) + _TP + EXTRA_DATA


# strings that make a standard-library constructor fail with something other than its usual error class
EXTRA_DATA = ['a{4294967296}', b'a{4294967296}', '(' * 3, '1' * 5000]


def walk(node, ErrorNode, path='$'):
    """Yield problems inside an error tree: non-ErrorNode nodes or None children."""
    if not isinstance(node, ErrorNode):
        yield f"{path}: {type(node).__name__} is not an ErrorNode"
        return
    ch = getattr(node, 'children', None)
    if isinstance(ch, dict):
        for k, c in ch.items():
            yield from walk(c, ErrorNode, f"{path}.{k}")
    elif isinstance(ch, (list, tuple)):
        for i, c in enumerate(ch):
            yield from walk(c, ErrorNode, f"{path}|{i}")


def judge(ctx, ast, sp, T, vi, v):
    from pane.convert import make_converter
    from pane.errors import ParseInterrupt, ConvertError, ErrorNode
    res = ctx.res
    conv = make_converter(T)
    try:
        conv.try_convert(values.fresh(v))
        fast = 'ok'
    except ParseInterrupt:
        fast = 'fail'
    except Exception as e:  # noqa
        fast = 'raw:' + type(e).__name__
    node = None
    try:
        node = conv.collect_errors(values.fresh(v))
        diag = 'none' if node is None else 'node'
    except Exception as e:  # noqa
        diag = 'raw:' + type(e).__name__
    res['evals'] += 1
    res['transitions'] += 3
    res['validated'] += 1
    root = e1.root_of(ast)
    vk = values.kind(v)
    res['outcomes'][f"{fast.split(':')[0]}/{diag.split(':')[0]}"] += 1
    if not isinstance(ast, str) or vk in ('seq', 'map'):
        res['nontrivial'].add(f"{root}|{fast}|{diag}|{vk}")
    cost = e1.size(ast) * 10 + e1.vsize(v)
    desc = f"{grammar.render(ast)} on {values.expr(v)[:120]}"
    if (fast, diag) in (('ok', 'node'), ('fail', 'none')):
        core.add_violation(res, {'kind': 'passes_disagree', 'fast': fast, 'diag': diag, 'root': root,
                                 'conv': type(conv).__name__, 'leaves': sorted(e1.leaves_of(ast))[:4]},
                           f"{desc}: try_convert {'returned' if fast == 'ok' else 'raised ParseInterrupt'} but collect_errors "
                           f"returned {core.srepr(node, 120)}", e1.cell_desc(ast, sp, vi, v), cost)
        return
    if fast.startswith('raw:') != diag.startswith('raw:') and 'RecursionError' not in fast + diag and 'MemoryError' not in fast + diag:
        # one pass deals with the situation (rejects, or accepts), the other lets an exception through: the passes disagree
        core.add_violation(res, {'kind': 'one_pass_lets_exception_through', 'fast': fast, 'diag': diag, 'root': root,
                                 'conv': type(conv).__name__, 'leaves': sorted(e1.leaves_of(ast))[:4]},
                           f"{desc}: try_convert -> {fast}, collect_errors -> {diag} {core.srepr(node, 80) if node is not None else ''}",
                           e1.cell_desc(ast, sp, vi, v), cost)
        return
    if node is not None:
        for problem in walk(node, ErrorNode):
            core.add_violation(res, {'kind': 'malformed_tree', 'root': root, 'conv': type(conv).__name__},
                               f"{desc}: error tree is malformed: {problem}", e1.cell_desc(ast, sp, vi, v), cost)
            break
    # the public entry point: never the 'bug of the Converter implementation' RuntimeError
    try:
        conv.convert(values.fresh(v))
    except ConvertError as e:
        if not isinstance(e.tree, ErrorNode):
            core.add_violation(res, {'kind': 'converterror_without_tree', 'root': root},
                               f"{desc}: ConvertError carries {type(e.tree).__name__} instead of an error tree",
                               e1.cell_desc(ast, sp, vi, v), cost)
    except RuntimeError as e:
        if 'collect_errors' in str(e):
            core.add_violation(res, {'kind': 'bug_runtimeerror', 'root': root, 'conv': type(conv).__name__,
                                     'site': core.site_of(e)},
                               f"{desc}: convert() raised the internal RuntimeError: {core.sstr(e, 90)}",
                               e1.cell_desc(ast, sp, vi, v), cost)
    except Exception:  # noqa: foreign exceptions are C04's
        res['extra']['foreign_exceptions_seen'] = res['extra'].get('foreign_exceptions_seen', 0) + 1


def run_shard(shard, tier):
    return e1.run_shard(shard, tier, judge, value_fn=values_c03, expr_fn=grammar.expressions_ext)


def replay(cell):
    return e1.replay(cell, judge, value_fn=values_c03)
