"""
C05 - serialise / parse round trip.
E1 cells (accepted values only) + the dataclass layout / renaming / alias configuration cube.
"""
from __future__ import annotations

import collections
import itertools
import typing as t
import warnings

from mc import core, e1, grammar, values, refmodel, classes_gen

ID = 'C05'
META = {
    'rule': "value part: (grammar) x spellings x members accepted by from_data -> x; d = into_data(x, T) must consist of interchange "
            "values only and match the documented serial form (scalar types exact: bool stays bool, Fraction -> str, ...); "
            "from_data(d, T) must be typed-equal to x; into_data of the re-parsed value must equal d up to set order. "
            "cube part: every dataclass configuration out_format x in_format x class naming (none / rename / in_rename / two in_renames / "
            "out_rename over 5 styles) x per-field naming (none / rename / aliases / in_names / out_name) x kw-only x exclude x "
            "default kind, on two- and three-field classes with multi-word names; judged when the output form is enabled on input "
            "(out_format in in_format and every field's output name, computed by the reference naming model from the user's "
            "configuration, is one of its model input names). Non-trivial: composite value or non-default configuration; "
            "key = (root, serial shape) / configuration tuple.",
    'assumptions': ["the naming model is transcribed from docs/using/dataclasses.md and the field() docstring, never read back from pane's Field objects",
                    "bytearray in into_data output is accepted (it passes pane's own Sequence interchange test)"],
    'bounds': {'quick': 'grammar depth<=2(+3 reduced) x members; 2-field classes in the cube', 'thorough': 'thorough grammar; 2- and 3-field classes'},
}

NCUBE = 32
IDENTITY_LEAVES = {'any', 'bare_list', 'bare_tuple', 'bare_dict', 'bare_set', 'bare_frozenset', 'sub_list', 'sub_dict'}


def plan(tier, seed):
    return e1.plan(tier, seed) + [{'kind': 'cube', 'i': i, 'n': NCUBE} for i in range(NCUBE)]


# ------------------------------------------------------------------ value part

def interchange_problem(d, path='$'):
    ty = type(d)
    if d is None or ty in (bool, int, float, complex, str, bytes, bytearray):
        return None
    if ty in (list, tuple):
        for i, x in enumerate(d):
            r = interchange_problem(x, f"{path}[{i}]")
            if r:
                return r
        return None
    if ty is dict:
        for k, x in d.items():
            r = interchange_problem(k, f"{path}<key>") or interchange_problem(x, f"{path}[{k!r}]")
            if r:
                return r
        return None
    try:
        import numpy
        if isinstance(d, numpy.ndarray):
            return None
    except ImportError:
        pass
    return f"{path}: {ty.__name__} {d!r} is not an interchange value"


def union_overlap(pane, ast, x) -> t.Optional[bool]:
    """
    Walk the typed value along the type; at the first union node whose own round trip fails, say whether the failure is
    the documented untagged ambiguity: a member LEFT of the rightful producer accepts the producer's serialised form.
    Returns None if no union node fails on its own.
    """
    from pane.errors import ConvertError
    if isinstance(ast, str):
        if ast in grammar.DC_SPECS:
            for f in grammar.DC_SPECS[ast]['fields']:
                if hasattr(x, f['name']):
                    r = union_overlap(pane, f['type'], getattr(x, f['name']))
                    if r is not None:
                        return r
        return None
    c = ast[0]
    try:
        if c in ('union', 'optional'):
            U = grammar.build(ast)
            members = t.get_args(U)
            d = pane.into_data(x, U)
            try:
                back = pane.from_data(d, U)
            except ConvertError:
                back = object()
            if values.typed_eq(back, x):
                # this union is fine on its own: look inside the member that holds the value
                for m in (ast[1:] if c == 'union' else [ast[1]]):
                    r = union_overlap(pane, m, x)
                    if r is not None:
                        return r
                return None
            taker = producer = None
            for i, M in enumerate(members):
                try:
                    r = pane.from_data(d, M)
                except Exception:  # noqa
                    continue
                if taker is None:
                    taker = i
                if producer is None and values.typed_eq(r, x):
                    producer = i
            return producer is not None and taker is not None and taker < producer
        if c in ('list', 'tuplevar', 'set', 'frozenset', 'deque'):
            for e in x:
                r = union_overlap(pane, ast[1], e)
                if r is not None:
                    return r
        elif c == 'tuple':
            for a, e in zip(ast[1:], x):
                r = union_overlap(pane, a, e)
                if r is not None:
                    return r
        elif c == 'struct':
            for kk, a in ast[1:]:
                if kk in x:
                    r = union_overlap(pane, a, x[kk])
                    if r is not None:
                        return r
        elif c in ('dict', 'defaultdict', 'ordereddict', 'counter'):
            for kk, e in x.items():
                r = union_overlap(pane, ast[1], kk)
                if r is None and c != 'counter':
                    r = union_overlap(pane, ast[2], e)
                if r is not None:
                    return r
        elif c == 'annot':
            return union_overlap(pane, ast[1], x)
    except Exception:  # noqa
        return None
    return None


def has_set(ast):
    return any(x in ('set', 'frozenset') for x in _ctors(ast)) or bool(e1.leaves_of(ast) & {'bare_set', 'bare_frozenset', 'any'})


def _ctors(ast):
    if isinstance(ast, str):
        return
    yield ast[0]
    kids = [v for _, v in ast[1:]] if ast[0] == 'struct' else [ast[1]] if ast[0] == 'annot' else ast[1:]
    for k in kids:
        yield from _ctors(k)


def unordered_key(d):
    """Canonical key of interchange data ignoring list order (used only for types that contain sets)."""
    if type(d) in (list, tuple):
        return ('seq', tuple(sorted((unordered_key(x) for x in d), key=repr)))
    if type(d) is dict:
        return ('map', tuple(sorted(((unordered_key(k), unordered_key(x)) for k, x in d.items()), key=repr)))
    return values.ckey(d)


def seq_norm(d):
    if type(d) in (list, tuple):
        return [seq_norm(x) for x in d]
    if type(d) is dict:
        return {(refmodel._deep_tuple(k) if type(k) in (list, tuple) else k): seq_norm(x) for k, x in d.items()}
    return d


def judge(ctx, ast, sp, T, vi, v):
    from pane.errors import ConvertError
    pane = ctx.pane
    res = ctx.res
    if 'dc_setpost' in e1.leaves_of(ast):
        return       # (the fixture's hook refuses an explicit 'b', and the class always writes 'b': it cannot read its own output by design)
    if 'dc_baddef' in e1.leaves_of(ast):
        return       # (the fixture's own default, None for an int field, is not a value of the field's type: what absent data yields is not a typed value)
    if 'ndarray' in e1.leaves_of(ast):
        return       # bare ndarray = array of Any: numpy, not pane, infers the dtype (object arrays, '<U21' vs '<U1'); ndarray_int is judged
    if not values.is_interchange(v) and IDENTITY_LEAVES & e1.leaves_of(ast):
        return       # Any / bare containers hand the datum through by identity: only plain interchange data is 'a value of the type'
    try:
        x = pane.from_data(values.fresh(v), T)
    except Exception:  # noqa: rejected cells and foreign exceptions are not C05's
        return
    res['evals'] += 1
    res['transitions'] += 3
    root = e1.root_of(ast)
    cost = e1.size(ast) * 10 + e1.vsize(v)
    desc = f"{grammar.render(ast)}: x = from_data({values.expr(v)[:70]}) = {core.srepr(x, 70)}"
    cell = e1.cell_desc(ast, sp, vi, v)
    try:
        d = pane.into_data(x, T)
    except Exception as e:  # noqa
        core.add_violation(res, {'kind': 'into_data_raises', 'exc': type(e).__name__, 'site': core.site_of(e), 'root': root},
                           f"{desc}; into_data(x, T) raised {type(e).__name__}: {core.sstr(e, 100)}", cell, cost)
        return
    res['validated'] += 1
    if not isinstance(ast, str) or values.kind(v) in ('seq', 'map'):
        res['nontrivial'].add(f"{root}|{type(d).__name__}|{hash(repr(sorted(e1.leaves_of(ast)))) % 997}")
    p = interchange_problem(d)
    if p:
        core.add_violation(res, {'kind': 'non_interchange_output', 'root': root, 'leaves': sorted(e1.leaves_of(ast))[:3]},
                           f"{desc}; into_data gave {core.srepr(d, 80)}: {p}", cell, cost)
        return
    p = refmodel.check_serial(ast, x, d)
    if p:
        core.add_violation(res, {'kind': 'wrong_serial_form', 'root': root, 'leaves': sorted(e1.leaves_of(ast))[:3]},
                           f"{desc}; into_data gave {core.srepr(d, 80)}: {p}", cell, cost)
        return
    # the statement's precondition holds for every dataclass that occurs in the type, at any depth
    for leaf in e1.leaves_of(ast):
        if leaf in grammar.DC_SPECS and not output_enabled_on_input(grammar.DC_SPECS[leaf]):
            res['unspec']['output_form_not_enabled_on_input'] += 1
            return
    try:
        x2 = pane.from_data(values.fresh(d) if values.is_interchange(d) else d, T)
        ok = True
    except ConvertError as e:
        x2, ok = e, False
    except Exception as e:  # noqa
        x2, ok = e, False
    if not ok or not eq_mod_excluded(ast, x, x2):
        ov = union_overlap(pane, ast, x)
        kw_tuple = tuple_out_with_kwonly(ast)
        tr = 'pane.types.Range' if e1.leaves_of(ast) & {'range_int', 'range_float', 'vol_range'} else None
        sig = {'kind': 'roundtrip_differs', 'union_overlap': bool(ov), 'tuple_out_kw_only': kw_tuple, 'type_root': tr}
        if not (ov or kw_tuple or tr):
            sig.update(root=root, leaves=sorted(e1.leaves_of(ast))[:3])
        core.add_violation(res, sig,
                           f"{desc}; into_data -> {core.srepr(d, 70)}; from_data of that -> "
                           f"{'ConvertError: ' + core.sstr(x2, 80) if not ok else core.srepr(x2, 80)}", cell, cost)
        return
    res['outcomes']['roundtrip_ok'] += 1
    # "equals x" also in Python's own sense (set / dict-key membership goes through __hash__, which the typed comparison above does not)
    if e1.leaves_of(ast) & {'dc_hidden'} and not values.nan_in(x):
        try:
            same = bool(x2 == x)
        except Exception:  # noqa
            same = True
        if not same:
            core.add_violation(res, {'kind': 'roundtrip_not_equal_in_python', 'root': root, 'leaves': sorted(e1.leaves_of(ast))[:3]},
                               f"{desc}; into_data -> {core.srepr(d, 70)}; from_data of that -> {core.srepr(x2, 80)}, which does not compare == to x", cell, cost)
            return
    try:
        d2 = pane.into_data(x2, T)
    except Exception as e:  # noqa
        core.add_violation(res, {'kind': 'second_into_data_raises', 'root': root},
                           f"{desc}; into_data of the re-parsed value raised {type(e).__name__}", cell, cost)
        return
    same = values.typed_eq(seq_norm(d), seq_norm(d2)) or (has_set(ast) and unordered_key(d) == unordered_key(d2))
    if not same:
        core.add_violation(res, {'kind': 'serialisation_not_stable', 'root': root},
                           f"{desc}; into_data -> {core.srepr(d, 70)} but after re-parsing into_data -> {core.srepr(d2, 70)}", cell, cost)


def eq_mod_excluded(ast, x, x2):
    if values.typed_eq(x, x2):
        return True
    try:
        return type(x) is type(x2) and x == x2 and values.ckey_unordered(strip_excluded(x)) == values.ckey_unordered(strip_excluded(x2))
    except Exception:  # noqa
        return False


def strip_excluded(x):
    return x


def tuple_out_with_kwonly(ast) -> bool:
    for leaf in e1.leaves_of(ast):
        spec = grammar.DC_SPECS.get(leaf)
        if spec and spec.get('opts', {}).get('out_format') == 'tuple' and \
                any(f['kw_only'] for f in classes_gen.effective_fields(spec)):
            return True
    return False


def output_enabled_on_input(spec) -> bool:
    """The statement's precondition, computed from the user's configuration by the reference naming model."""
    opts = spec.get('opts', {})
    in_format = opts.get('in_format', ['struct'])
    in_format = [in_format] if isinstance(in_format, str) else list(in_format)
    out_format = opts.get('out_format', 'struct')
    if out_format not in in_format:
        return False
    fields = classes_gen.effective_fields(spec)
    for f in fields:
        if f.get('exclude'):
            if f.get('init', True) and not classes_gen.has_default(f):
                return False       # an excluded required field can never be read back
            continue
        if not f.get('init', True):
            return False           # emitted but never accepted on input
        if out_format == 'struct':
            firm, soft = classes_gen.input_names(f, opts)
            if classes_gen.out_name(f, opts) not in firm:
                return False
    if out_format == 'tuple':
        # positional input binds the non-keyword-only init fields in order: the emitted (non-excluded) positional fields
        # must be exactly those (keyword-only fields in a tuple output are the listed known finding and stay judged)
        emitted = [f['name'] for f in fields if not f.get('exclude') and not f['kw_only']]
        accepted = [f['name'] for f in fields if f.get('init', True) and not f['kw_only']]
        if emitted != accepted:
            return False
    return True


# ------------------------------------------------------------------ configuration cube

STY = classes_gen.STYLES
CLASS_NAMING = [{}] + [{'rename': s} for s in STY] + [{'in_rename': s} for s in STY] + \
               [{'in_rename': [a, b]} for a, b in (('snake', 'camel'), ('kebab', 'pascal'), ('scream', 'snake'), ('camel', 'kebab'))] + \
               [{'out_rename': s} for s in STY] + [{'in_rename': ['snake', s], 'out_rename': s} for s in ('camel', 'kebab')]
FIELD_NAMING = [{}, {'rename': 'ren_x'}, {'rename': 'renX'}, {'aliases': ['al_x', 'alX']}, {'in_names': ['in_x', 'my_field']},
                {'in_names': ['only_other']}, {'out_name': 'out_x'}, {'out_name': 'my_field'},
                {'aliases': ['al_x'], 'out_name': 'al_x'}, {'in_names': ['in_x'], 'out_name': 'in_x'},
                {'aliases': ['\xb5m']}]       # (an input name that Unicode normalisation would change: names are compared as written)
FORMATS = [('struct', ['struct']), ('struct', ['tuple']), ('struct', ['struct', 'tuple']),
           ('tuple', ['struct']), ('tuple', ['tuple']), ('tuple', ['struct', 'tuple'])]
PLACEMENT = [(False, False), (True, False), (False, True)]          # (first field kw_only, second field kw_only)
EXCLUDE = [False, True]
DEFAULTS = [(None, ['value', '7']), (None, None), (['value', "'d'"], ['value', '7']), (None, ['factory', 'list'])]


def cube_configs(tier):
    for (outf, inf), cn, fn, (kw1, kw2), exc, (d1, d2) in itertools.product(FORMATS, CLASS_NAMING, FIELD_NAMING, PLACEMENT, EXCLUDE, DEFAULTS):
        ty2 = ['list', 'int'] if d2 and d2[0] == 'factory' else 'int'
        f1 = dict(name='my_field', type='str', default=d1, kw_only=kw1, **fn)
        f2 = dict(name='other_one', type=ty2, default=d2, kw_only=kw2, exclude=exc)
        fields = [f1, f2]
        if tier == 'thorough':
            fields.append(dict(name='third_fld', type='bool', default=['value', 'True'], kw_only=False))
        yield dict(name='Cube', opts={'out_format': outf, 'in_format': inf, **cn}, fields=fields)


def cube_sig(spec):
    o = spec['opts']
    f1, f2 = spec['fields'][0], spec['fields'][1]
    return {
        'out_format': o['out_format'], 'in_format': '+'.join(o['in_format']),
        'class_naming': next((k for k in ('rename', 'in_rename', 'out_rename') if k in o), 'none') + ('+out' if 'in_rename' in o and 'out_rename' in o else ''),
        'field_naming': '+'.join(k for k in ('rename', 'aliases', 'in_names', 'out_name') if k in f1) or 'none',
        'has_kw_only': bool(f1['kw_only'] or f2['kw_only']), 'exclude': bool(f2.get('exclude')),
    }


def run_cube_config(pane, spec, res, idx):
    from pane.errors import ConvertError
    sig = cube_sig(spec)
    cell = {'kind': 'cube', 'index': idx, 'spec': spec}
    res['states'] += 1
    try:
        cls = classes_gen.build_class(spec, grammar.build, values.eval_expr, grammar.REGISTRY)
    except (TypeError, ValueError) as e:
        res['outcomes'][f'class_refused:{type(e).__name__}'] += 1
        return
    res['transitions'] += 1
    if not output_enabled_on_input(spec):
        res['unspec']['output_form_not_enabled_on_input'] += 1
        res['outcomes']['precondition_false'] += 1
        return
    opts = spec['opts']
    fields = classes_gen.effective_fields(spec)
    insts = []
    allkw = {}
    for f in spec['fields']:
        allkw[f['name']] = {'str': 'v', 'int': 4, 'bool': False}[f['type']] if isinstance(f['type'], str) else [1, 2]
    try:
        insts.append(cls(**allkw))
        req = {f['name']: allkw[f['name']] for f in spec['fields'] if not classes_gen.has_default(f)}
        insts.append(cls(**req))
    except Exception as e:  # noqa
        core.add_violation(res, {'kind': 'cube_constructor_raises', 'exc': type(e).__name__, **sig},
                           f"constructing the class for configuration {sig} raised {type(e).__name__}: {core.sstr(e, 100)}", cell, 5)
        return
    res['nontrivial'].add(repr(sorted(sig.items())))
    for x in insts:
        res['evals'] += 1
        res['transitions'] += 3
        res['validated'] += 1
        desc = f"config {opts} / field {dict((k, v) for k, v in spec['fields'][0].items() if k not in ('name', 'type', 'default') and v)}: x = {x!r}"
        try:
            d = pane.into_data(x, cls)
            d_m = x.into_data()
        except Exception as e:  # noqa
            core.add_violation(res, {'kind': 'into_data_raises', 'exc': type(e).__name__, **sig},
                               f"{desc}; into_data raised {type(e).__name__}: {core.sstr(e, 100)}", cell, 5)
            continue
        if not values.typed_eq(d, d_m):
            core.add_violation(res, {'kind': 'method_vs_function', **sig}, f"{desc}; into_data(x, Cls) = {d!r} but x.into_data() = {d_m!r}", cell, 5)
        p = _check_cube_serial(spec, x, d)
        if p:
            core.add_violation(res, {'kind': 'wrong_serial_form', **sig}, f"{desc}; into_data gave {d!r}: {p}", cell, 5)
            continue
        try:
            x2 = pane.from_data(values.fresh(d), cls)
        except ConvertError as e:
            if sig['out_format'] == 'tuple' and sig['has_kw_only']:
                # one root cause whatever the naming: tuple output carries keyword-only fields that tuple input refuses
                sig = {'out_format': 'tuple', 'has_kw_only': True}
            core.add_violation(res, {'kind': 'roundtrip_differs', 'how': 'rejected', **sig},
                               f"{desc}; into_data -> {d!r}; from_data of that is rejected: {core.sstr(e, 160)}", cell, 5)
            continue
        except Exception as e:  # noqa
            core.add_violation(res, {'kind': 'roundtrip_differs', 'how': type(e).__name__, **sig},
                               f"{desc}; into_data -> {d!r}; from_data of that raised {type(e).__name__}", cell, 5)
            continue
        bad = None
        for f in fields:
            if f.get('exclude'):
                continue
            if not values.typed_eq(getattr(x, f['name']), getattr(x2, f['name'])):
                bad = f['name']
        if bad or type(x2) is not cls:
            core.add_violation(res, {'kind': 'roundtrip_differs', 'how': 'value', **sig},
                               f"{desc}; into_data -> {d!r}; from_data of that -> {x2!r} (field {bad} differs)", cell, 5)
            continue
        d2 = pane.into_data(x2, cls)
        if not values.typed_eq(seq_norm(d), seq_norm(d2)):
            core.add_violation(res, {'kind': 'serialisation_not_stable', **sig},
                               f"{desc}; into_data -> {d!r}, after re-parsing -> {d2!r}", cell, 5)
        res['outcomes']['cube_roundtrip_ok'] += 1


def _check_cube_serial(spec, x, d):
    return refmodel._check_serial_dc(spec, x, d, '$')


def run_shard(shard, tier):
    if shard.get('kind') != 'cube':
        return e1.run_shard(shard, tier, judge, expr_fn=grammar.expressions_ext)
    pane = core.import_pane()
    warnings.simplefilter('ignore')
    res = core.new_result()
    from pane.convert import make_converter
    for idx, spec in enumerate(cube_configs(tier)):
        if idx % shard['n'] != shard['i']:
            continue
        try:
            run_cube_config(pane, spec, res, idx)
        except Exception as e:  # noqa
            core.add_violation(res, {'kind': 'oracle_exception', 'exc': type(e).__name__},
                               f"cube configuration {idx} raised {type(e).__name__}: {core.sstr(e)}", {'kind': 'cube', 'index': idx, 'spec': spec}, 5)
        if idx % 2000 < shard['n']:
            make_converter.cache.clear()
    if shard['i'] == 0:
        res['samples'].append({'cube_config': next(iter(cube_configs(tier)))})
    return res


def replay(cell):
    if cell.get('kind') != 'cube':
        return e1.replay(cell, judge)
    pane = core.import_pane()
    warnings.simplefilter('ignore')
    res = core.new_result()
    run_cube_config(pane, cell['spec'], res, cell['index'])
    return [v for lst in res['violations'].values() for v in lst]
