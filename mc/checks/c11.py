"""
C11 - untagged unions: the left-most accepting member wins; serialisation uses a member that accepts the value.
Compositional oracle: each member converted alone (real code, strictly smaller type) decides what the union must do.
"""
from __future__ import annotations

import itertools
import typing as t
import warnings

from mc import core, e1, grammar, values, refmodel

ID = 'C11'
META = {
    'rule': "all ordered pairs (thorough: plus triples) over a pool of 21 deliberately overlapping member types, each in 19 nesting "
            "forms (plain, nested Union, Optional outside / inside, list element, dict value, Annotated, dataclass field, generic "
            "dataclass field with the type variable on either side, after subscription) x the union of the members' own members and "
            "single-deviation neighbours; member order is read from typing.get_args of the spelled union; the result must be "
            "typed-equal to what the first accepting member alone returns (none accepting -> ConvertError); every value sequence is "
            "run twice on the memoised converter and both passes must agree (no dependence on previously converted values); "
            "into_data(x, U) must equal into_data(x, Aj) for a member Aj with from_data(into_data(x, Aj), Aj) == x. "
            "Non-trivial: at least two members accept the value, or the accepting member is not the first; key = (A, B, form, index of winner, #accepting).",
    'assumptions': ["members that raise a foreign exception alone are C04's business and the cell is skipped",
                    "serialisation oracle is behavioural (a member 'accepts x' if it round-trips x), see DESIGN.md C11"],
    'bounds': {'quick': '21 x 20 ordered pairs x 19 forms', 'thorough': 'pairs + 21 x 20 x 6 triples x 4 forms'},
}

POOL = ['int', 'float', 'complex', 'bool', 'str', 'none', ['list', 'int'], ['list', 'float'], ['tuple', 'int', 'int'],
        ['dict', 'str', 'int'], 'dc_both', 'dc_defaults', 'dc_struct', 'lit_mixed', ['annot', 'int', 'positive'], 'enum_int',
        'decimal', 'date', 'datetime', 'dc_strs', 'dc_sub']
THIRD = ['int', 'str', 'none', ['list', 'int'], 'float', 'dc_defaults']
EXTRA_VALUES = [5, -5, 0, 1, 2, 1.0, -2.5, '5', 'a', '2023-09-05', '2023-09-05T11:11:11', 'tomorrow', None, True,
                [1, 2], [1.5], [1, 'a'], {}, {'a': 1}, {'a': 1, 'b': 2.0}, ['x', 'y'], 'xy', [], (3, 4), {'a': 3, 'b': 'q'}]

T_ = t.TypeVar('T_')


def plan(tier, seed):
    shards = [{'a': i} for i in range(len(POOL))] + [{'literals': True}]
    return shards


def forms(pane, A, B, C=None):
    """(name, type object, wrap(value), unwrap(result), members in expected order)"""
    U = t.Union[A, B] if C is None else t.Union[A, B, C]
    mem = t.get_args(U) if t.get_origin(U) is t.Union else (U,)
    out = [('plain', U, lambda v: v, lambda r: r, mem)]
    if C is not None:
        out.append(('nested_right', t.Union[A, t.Union[B, C]], lambda v: v, lambda r: r, None))
        out.append(('nested_left', t.Union[t.Union[A, B], C], lambda v: v, lambda r: r, None))
        LT = t.List[U]
        out.append(('list_elem', LT, lambda v: [v], lambda r: r[0], t.get_args(t.get_args(LT)[0])))
        return out
    out.append(('optional_outside', t.Optional[U], lambda v: v, lambda r: r, None))
    out.append(('optional_inside', t.Union[t.Optional[A], B], lambda v: v, lambda r: r, None))
    # NB typing caches List[X] / Dict[str, X] / Annotated[X, c] by *equality* of X and Union equality ignores member order, so
    # List[Union[B, A]] may be the very object built earlier for List[Union[A, B]]: read the order from the object we got
    LT, DT = t.List[U], t.Dict[str, U]
    out.append(('list_elem', LT, lambda v: [v, v], lambda r: r[1], t.get_args(t.get_args(LT)[0])))
    out.append(('dict_value', DT, lambda v: {'k': v}, lambda r: r['k'], t.get_args(t.get_args(DT)[1])))
    from pane.annotations import Condition
    AT = t.Annotated[U, _TRUE(Condition)]
    out.append(('annotated', AT, lambda v: v, lambda r: r, t.get_args(t.get_args(AT)[0])))
    Holder = grammar.pin(type('Holder', (pane.PaneBase,), {'__annotations__': {'f': U}, '__module__': 'mc.generated'}))
    out.append(('dc_field', Holder, lambda v: {'f': v}, lambda r: r.f, mem))
    # tuple-literal and struct-literal wrappers (types that are plain Python containers of types)
    out.append(('tuple_literal', (U, int), lambda v: [v, 1], lambda r: r[0], mem))
    out.append(('struct_literal', {'k': U}, lambda v: {'k': v}, lambda r: r['k'], mem))
    out.append(('builtin_list', list[U], lambda v: [v], lambda r: r[0], mem))
    # a dataclass with class-level custom= : its handlers must reach the union's members exactly as they reach the member alone
    x3 = _times3(pane)
    HC = grammar.pin(type('HolderC', (pane.PaneBase,), {'__annotations__': {'f': U}, '__module__': 'mc.generated'}, custom={int: x3}))
    out.append(('dc_field_class_custom', HC, lambda v: {'f': v}, lambda r: r.f, ('class_custom', mem)))
    from mc.classes_gen import new_class
    # a type variable that duplicates a later member: Union[T, B, A][A] -> typing keeps the first occurrence
    G0 = grammar.pin(new_class('GenDup', (pane.PaneBase, t.Generic[T_]), {'__annotations__': {'f': t.Union[T_, B, A]}, '__module__': 'mc.generated'}))
    exp_dup = t.get_args(t.Union[A, B, A]) if t.get_origin(t.Union[A, B, A]) is t.Union else (t.Union[A, B, A],)
    out.append(('generic_duplicate', grammar.pin(G0[A]), lambda v: {'f': v}, lambda r: r.f, exp_dup))
    G1 = grammar.pin(new_class('GenL', (pane.PaneBase, t.Generic[T_]), {'__annotations__': {'f': t.Union[T_, B]}, '__module__': 'mc.generated'}))
    out.append(('generic_left', grammar.pin(G1[A]), lambda v: {'f': v}, lambda r: r.f, mem))
    G2 = grammar.pin(new_class('GenR', (pane.PaneBase, t.Generic[T_]), {'__annotations__': {'f': t.Union[A, T_]}, '__module__': 'mc.generated'}))
    out.append(('generic_right', grammar.pin(G2[B]), lambda v: {'f': v}, lambda r: r.f, mem))
    # the whole union as the argument of ONE generic class shared by every pair and both orders: subscription is memoised by
    # pane, and Union[A, B] == Union[B, A] - the class made for one order must not answer for the other
    if not _GW:
        _GW.append(grammar.pin(new_class('GenWhole', (pane.PaneBase, t.Generic[T_]), {'__annotations__': {'f': T_, 'g': t.List[T_]}, '__module__': 'mc.generated'})))
    out.append(('generic_whole', grammar.pin(_GW[0][U]), lambda v: {'f': v, 'g': []}, lambda r: r.f, mem))
    out.append(('generic_whole_builtin_list', grammar.pin(_GW[0][list[U]]), lambda v: {'f': [v], 'g': []}, lambda r: r.f[0], mem))
    # the variable sits below a container INSIDE a union (Optional[List[T]]): substitution rebuilds that outer union, and typing
    # memoises Union[...] by == of its arguments - list[Union[A, B]] == list[Union[B, A]]
    if len(_GW) < 2:
        _GW.append(grammar.pin(new_class('GenOptList', (pane.PaneBase, t.Generic[T_]),
                                         {'__annotations__': {'f': t.Optional[t.List[T_]], 'g': t.Union[t.Dict[str, T_], str]},
                                          'g': 'x', '__module__': 'mc.generated'})))
    if t.get_origin(U) is t.Union and C is None:
        # an equal binding with the members the other way round is made FIRST (deterministically): typing hands the union it
        # built for that one back to pane when pane substitutes the second binding (known finding 'typing_memo_aliased')
        grammar.pin(_GW[1][t.Union[B, A]])
        cls = grammar.pin(_GW[1][U])
        for fname, probe, wrap, unwrap in (
                ('generic_whole_optional_list', lambda: t.Union[list[U], type(None)], lambda v: {'f': [v]}, lambda r: r.f[0]),
                ('generic_whole_union_dict', lambda: t.Union[dict[str, U], str], lambda v: {'f': None, 'g': {'k': v}}, lambda r: r.g['k'])):
            # what typing itself returns for the construction the substitution performs (no pane code involved), asked when
            # the class is first made - pane keeps the class, and typing's memo may be emptied later
            if (cls, fname) not in _GWA:
                inner = t.get_args(t.get_args(probe())[0])[-1]
                _GWA[(cls, fname)] = t.get_args(inner) if t.get_origin(inner) is t.Union else (inner,)
            out.append((fname, cls, wrap, unwrap, ('aliased', mem, _GWA[(cls, fname)])))
    return out


_X3: t.List[t.Any] = []
_GW: t.List[t.Any] = []
_GWA: t.Dict[t.Any, t.Any] = {}


def _times3(pane):
    if not _X3:
        from pane.converters import Converter
        from pane.errors import ParseInterrupt, WrongTypeError

        class Times3(Converter):
            def expected(self, plural=False):
                return 'int (x3)'

            def try_convert(self, val):
                if type(val) is int:
                    return val * 3
                raise ParseInterrupt()

            def collect_errors(self, val):
                return None if type(val) is int else WrongTypeError(self.expected(), val)

            def into_data(self, val):
                return val // 3
        _X3.append(Times3())
    return _X3[0]


_TRUE_C: t.List[t.Any] = []


def _TRUE(Condition):
    if not _TRUE_C:
        _TRUE_C.append(grammar.pin(Condition(lambda v: True, 'anything')))
    return _TRUE_C[0]


def alone(pane, M, v):
    from pane.errors import ConvertError
    try:
        return ('ok', pane.from_data(values.fresh(v), M))
    except ConvertError:
        return ('rej', None)
    except Exception as e:  # noqa
        return ('raw', e)


_ALONE_CLS: t.Dict[int, t.Any] = {}


def alone_in_class(pane, M, v):
    """The member alone as the field of a dataclass carrying the same class-level custom=."""
    from pane.errors import ConvertError
    C = _ALONE_CLS.get(id(M))
    if C is None:
        C = grammar.pin(type('HolderM', (pane.PaneBase,), {'__annotations__': {'f': M}, '__module__': 'mc.generated'}, custom={int: _times3(pane)}))
        _ALONE_CLS[id(M)] = C
    try:
        return ('ok', pane.from_data({'f': values.fresh(v)}, C).f)
    except ConvertError:
        return ('rej', None)
    except Exception as e:  # noqa
        return ('raw', e)


def values_for_members(asts):
    out = []
    for a in asts:
        mem = refmodel.members(a)
        out.extend(mem)
        for m in mem[:2]:
            out.extend(list(values.mutate1(m, values.ATOMS_SMALL))[:25])
    out.extend(EXTRA_VALUES)
    return values.dedupe(out)


def judge_union(pane, res, name, U, wrap, unwrap, members, v, cellinfo, cache):
    """One (union form, value) cell."""
    from pane.errors import ConvertError
    class_custom = False
    if isinstance(members, tuple) and len(members) == 2 and members[0] == 'class_custom':
        class_custom, members = True, members[1]
    aliased = None
    if isinstance(members, tuple) and len(members) == 3 and members[0] == 'aliased':
        _, members, aliased = members
        if tuple(aliased) == tuple(members):
            aliased = None
    if members is None:
        flat = t.get_args(U)
        members = flat
        # Optional outside: typing flattens to (A, B, None); Optional inside: (A, None, B)
    data = wrap(v)
    try:
        out = ('ok', unwrap(pane.from_data(values.fresh(data), U)))
    except ConvertError:
        out = ('rej', None)
    except Exception as e:  # noqa
        out = ('raw', e)
    res['evals'] += 1
    res['transitions'] += 1
    if out[0] == 'raw':
        res['outcomes']['foreign'] += 1
        return out
    winner = None
    nacc = 0
    for i, M in enumerate(members):
        key = (id(M), values.ckey(v), class_custom)
        r = cache.get(key)
        if r is None:
            r = alone(pane, M, v) if not class_custom else alone_in_class(pane, M, v)
            cache[key] = r
            res['transitions'] += 1
        if r[0] == 'raw':
            res['outcomes']['member_foreign'] += 1
            return out
        if r[0] == 'ok':
            nacc += 1
            if winner is None:
                winner = (i, r[1])
    res['validated'] += 1
    res['outcomes'][f"{'accept' if winner else 'reject'}"] += 1
    if nacc >= 2 or (winner and winner[0] > 0):
        res['nontrivial'].add(f"{cellinfo['A']}|{cellinfo['B']}|{name}|{winner[0] if winner else '-'}|{min(nacc, 3)}")
    cost = 10 + e1.vsize(v)
    sig = {'form': name, 'A': cellinfo['A'], 'B': cellinfo['B']}
    if aliased is not None and winner is not None and out[0] == 'ok' and not values.typed_eq(out[1], winner[1]):
        # is the result what the left-most rule gives for the member order of the union TYPING handed back (made earlier for an
        # equal binding)?  Then it is the known aliasing, otherwise an ordinary violation
        w2 = next((r for r in (alone(pane, M, v) for M in aliased) if r[0] == 'ok'), None)
        sig['typing_memo_aliased'] = bool(w2 is not None and values.typed_eq(out[1], w2[1]))
    desc = f"from_data({values.expr(data)[:80]}, {name} of Union[{cellinfo['A']}, {cellinfo['B']}{', ' + cellinfo['C'] if cellinfo.get('C') else ''}])"
    cell = dict(cellinfo, form=name, v=values.expr(v))
    if winner is None:
        if out[0] == 'ok':
            core.add_violation(res, {'kind': 'accepted_without_member', **sig},
                               f"{desc} returned {core.srepr(out[1], 80)} although no member accepts the value alone", cell, cost)
        return out
    if out[0] != 'ok':
        core.add_violation(res, {'kind': 'rejected_despite_member', **sig},
                           f"{desc} was rejected although member {winner[0]} accepts it alone (-> {core.srepr(winner[1], 60)})", cell, cost)
        return out
    # convert() of plain interchange data is from_data of that data: the same left-most member (constructors go this way)
    if values.is_interchange(data):
        try:
            cv = ('ok', unwrap(pane.convert(values.fresh(data), U)))
        except ConvertError:
            cv = ('rej', None)
        except BaseException as e:  # noqa
            if isinstance(e, (KeyboardInterrupt, SystemExit)):
                raise
            cv = ('raw', e)
        res['transitions'] += 1
        if cv[0] != 'raw' and (cv[0] != 'ok' or not values.typed_eq(cv[1], winner[1])):
            core.add_violation(res, {'kind': 'convert_differs_from_from_data', **sig},
                               f"convert({values.expr(data)[:60]}, {name} of Union[{cellinfo['A']}, {cellinfo['B']}]) gave {cv[0]} {core.srepr(cv[1], 50)} "
                               f"({type(cv[1]).__name__}); the left-most accepting member (#{winner[0]}) alone returns {core.srepr(winner[1], 50)} ({type(winner[1]).__name__})",
                               cell, cost)
            return out
    if not values.typed_eq(out[1], winner[1]):
        core.add_violation(res, {'kind': 'not_leftmost', **sig},
                           f"{desc} returned {core.srepr(out[1], 70)} ({type(out[1]).__name__}); the left-most accepting member "
                           f"(#{winner[0]}) alone returns {core.srepr(winner[1], 70)} ({type(winner[1]).__name__})", cell, cost)
        return out
    # serialisation: uses a member that accepts the value
    if name in ('plain', 'nested_right', 'nested_left', 'optional_outside', 'optional_inside'):
        x = out[1]
        try:
            d = pane.into_data(x, U)
        except BaseException as e:  # noqa: (also something that is not an Exception must not leave a conversion)
            if isinstance(e, (KeyboardInterrupt, SystemExit)):
                raise
            core.add_violation(res, {'kind': 'into_data_raises', 'exc': type(e).__name__, **sig},
                               f"into_data({core.srepr(x, 60)}, {name} of Union[{cellinfo['A']}, {cellinfo['B']}]) raised "
                               f"{type(e).__name__}: {core.sstr(e, 80)}", cell, cost)
            return out
        res['transitions'] += 1
        ok = False
        cands = []
        for M in members:
            try:
                dm = pane.into_data(x, M)
            except Exception:  # noqa
                continue
            cands.append(dm)
            # (typed comparison: 2 and 2.0 are different data - the int member's way of writing must not pass for the float member's)
            if values.typed_eq(dm, d):
                try:
                    back = pane.from_data(values.fresh(dm), M)
                    if values.typed_eq(back, x):
                        ok = True
                        break
                except Exception:  # noqa
                    pass
        if not ok:
            core.add_violation(res, {'kind': 'serialised_by_nonaccepting_member', **sig},
                               f"into_data({core.srepr(x, 60)}, {name} of Union[{cellinfo['A']}, {cellinfo['B']}]) gave "
                               f"{core.srepr(d, 60)}, which is not the serialisation by any member that round-trips the value "
                               f"(members give {core.srepr(cands, 100)})", cell, cost)
    return out


TWINS = [(1, 1.0), (1.0, 1), (True, 1), (1, True), (0, 0.0), (0.0, 0), (0.0, -0.0), (-0.0, 0.0), (0, False), (False, 0), (5, 5.0), (5.0, 5),
         (1, 1.0, True), (1.0, True, 1)]


def run_twins(pane, res, U, members, info):
    """Sequences holding values that are == but of different types (1, 1.0, True; 0.0, -0.0): each ELEMENT must come out as
    the left-most accepting member alone produces it - whatever equal value was converted just before it in the same call."""
    from pane.errors import ConvertError
    grammar.fresh_typing()
    for ctor, wrap_t in (('list', t.List[U]), ('tuplevar', t.Tuple[U, ...]), ('dict_values', t.Dict[str, U])):
        grammar.pin(wrap_t)
        for tw in TWINS:
            exp = []
            for v in tw:
                r = next((x for x in (alone(pane, M, v) for M in members) if x[0] != 'rej'), ('rej', None))
                exp.append(r)
            if any(r[0] == 'raw' for r in exp):
                continue
            data = {str(i): v for i, v in enumerate(tw)} if ctor == 'dict_values' else list(tw)
            try:
                got = pane.from_data(values.fresh(data), wrap_t)
                got = list(got.values()) if ctor == 'dict_values' else list(got)
                out = 'ok'
            except ConvertError:
                out, got = 'rej', None
            except Exception:  # noqa
                continue
            res['evals'] += 1
            res['transitions'] += 1
            res['validated'] += 1
            want_ok = all(r[0] == 'ok' for r in exp)
            sig = {'kind': 'equal_values_confused', 'form': ctor, 'A': info['A'], 'B': info['B']}
            desc = f"from_data({values.expr(data)}, {ctor} of Union[{info['A']}, {info['B']}])"
            cell = dict(info, form='twins:' + ctor, v=values.expr(list(tw)))
            if want_ok != (out == 'ok'):
                core.add_violation(res, sig, f"{desc} was {'rejected' if want_ok else 'accepted'}; element by element the union "
                                             f"{'accepts every one' if want_ok else 'refuses one'}", cell, 12)
            elif want_ok and not all(values.typed_eq(g, r[1]) for g, r in zip(got, exp)):
                res['nontrivial'].add(f"twins|{info['A']}|{info['B']}|{ctor}")
                core.add_violation(res, sig, f"{desc} returned {core.srepr(got, 70)}; element by element the left-most accepting member "
                                             f"gives {core.srepr([r[1] for r in exp], 70)}", cell, 12)


def run_long(pane, res, U, members, vals, info):
    """A LONG sequence (about 70 elements, in two orders) of values the union accepts: every element must come out exactly as
    it does when converted alone - whatever was converted before it in the same call (a converter may remember, per call,
    which member took the previous element of the same Python type, or what an equal element turned into)."""
    from pane.errors import ConvertError
    acc = []
    for v in vals:
        r = next((x for x in (alone(pane, M, v) for M in members) if x[0] != 'rej'), ('rej', None))
        if r[0] == 'raw':
            return
        if r[0] == 'ok':
            acc.append((v, r[1]))
    if len(acc) < 2:
        return
    for oname, base in (('given', acc), ('reversed', acc[::-1])):
        seq = (base * (70 // len(base) + 1))[:max(70, len(base))]
        for ctor, wrap_t in (('list', list[U]), ('tuplevar', tuple[U, ...])):
            try:
                got = list(pane.from_data([values.fresh(v) for v, _ in seq], wrap_t))
            except ConvertError as e:
                got = e
            except Exception:  # noqa
                continue
            res['evals'] += 1
            res['transitions'] += len(seq)
            res['validated'] += 1
            res['nontrivial'].add(f"long|{info['A']}|{info['B']}|{ctor}")
            sig = {'kind': 'long_sequence_elementwise', 'form': ctor, 'A': info['A'], 'B': info['B']}
            cell = dict(info, form='long:' + ctor, order=oname)
            if isinstance(got, Exception):
                core.add_violation(res, sig, f"a {len(seq)}-element {ctor} of Union[{info['A']}, {info['B']}] whose elements are all accepted "
                                             f"alone was rejected: {core.sstr(got, 80)}", cell, 20)
                continue
            bad = [i for i, (g, (_, w)) in enumerate(zip(got, seq)) if not values.typed_eq(g, w)]
            if bad or len(got) != len(seq):
                i = bad[0] if bad else len(got)
                core.add_violation(res, sig, f"a {len(seq)}-element {ctor} of Union[{info['A']}, {info['B']}] ({oname} order): element {i} "
                                             f"({values.expr(seq[i][0])[:40]}) came out as {core.srepr(got[i], 40)} ({type(got[i]).__name__}); converted "
                                             f"alone the left-most accepting member gives {core.srepr(seq[i][1], 40)} ({type(seq[i][1]).__name__})", cell, 20)


def run_pair(pane, res, ai, bi, ci, tier):
    A_ast, B_ast = POOL[ai], POOL[bi]
    C_ast = THIRD[ci] if ci is not None else None
    if A_ast == B_ast or C_ast in (A_ast, B_ast):
        return
    A, B = grammar.build(A_ast), grammar.build(B_ast)
    C = grammar.build(C_ast) if C_ast is not None else None
    info = {'ai': ai, 'bi': bi, 'ci': ci, 'A': grammar.render(A_ast), 'B': grammar.render(B_ast),
            'C': grammar.render(C_ast) if C_ast is not None else None}
    vals = values_for_members([A_ast, B_ast] + ([C_ast] if C_ast is not None else []))
    cache: t.Dict[t.Any, t.Any] = {}
    for name, U, wrap, unwrap, members in forms(pane, A, B, C):
        grammar.pin(U)
        first = []
        for v in vals:
            first.append(judge_union(pane, res, name, U, wrap, unwrap, members, v, info, cache))
        # second pass on the same memoised converter: no dependence on what was converted before
        for v, o1 in zip(vals, first):
            from pane.errors import ConvertError
            try:
                o2 = ('ok', unwrap(pane.from_data(values.fresh(wrap(v)), U)))
            except ConvertError:
                o2 = ('rej', None)
            except Exception as e:  # noqa
                o2 = ('raw', e)
            res['transitions'] += 1
            if o1[0] != 'raw' and (o1[0] != o2[0] or (o1[0] == 'ok' and not values.typed_eq(o1[1], o2[1]))):
                core.add_violation(res, {'kind': 'history_dependent', 'form': name, 'A': info['A'], 'B': info['B']},
                                   f"{name} of Union[{info['A']}, {info['B']}] on {values.expr(v)[:60]}: first pass -> {o1[0]} "
                                   f"{core.srepr(o1[1], 50)}, second pass over the same values -> {o2[0]} {core.srepr(o2[1], 50)}",
                                   dict(info, form=name, v=values.expr(v), twice=True), 10)
        res['states'] += len(vals)
        if name == 'plain' and C is None and members:
            run_twins(pane, res, U, members, info)
            run_long(pane, res, U, members, vals, info)


LIT_VALUES = [0, 1, 2, 0.0, 1.0, True, False, 'a', 'b', 'c', None, [0], '1']


def literal_triples():
    L = t.Literal
    import decimal
    return [(L[0], float, L[1]), (L[1], float, L[0]), (L['a'], str, L['b']), (L[0], L[1], float), (float, L[0], L[1]),
            (L[0], complex, L[1], float, L[2]), (L['1'], decimal.Decimal, L['2']), (L[None], int, L[0]), (L[0, 1], float, L[2]),
            (L[True], int, L[False])]


def run_literals(pane, res):
    """Unions with several Literal members that are NOT adjacent: the member between them may take a later literal's value."""
    for k, tri in enumerate(literal_triples()):
        grammar.fresh_typing()
        U = grammar.pin(t.Union[tri])
        members = t.get_args(U)
        info = {'ai': -1, 'bi': k, 'ci': None, 'A': 'literal-triple', 'B': ', '.join(getattr(m, '__name__', None) or repr(m).replace('typing.', '') for m in tri), 'C': None}
        Holder = grammar.pin(type('HolderL', (pane.PaneBase,), {'__annotations__': {'f': U}, '__module__': 'mc.generated'}))
        cache: t.Dict[t.Any, t.Any] = {}
        for name, T, wrap, unwrap in (('plain', U, lambda v: v, lambda r: r), ('list_elem', grammar.pin(t.List[U]), lambda v: [v, v], lambda r: r[1]),
                                      ('optional_outside', grammar.pin(t.Optional[U]), lambda v: v, lambda r: r),
                                      ('dc_field', Holder, lambda v: {'f': v}, lambda r: r.f),
                                      ('dict_value', grammar.pin(t.Dict[str, U]), lambda v: {'k': v}, lambda r: r['k'])):
            mem = members if name != 'optional_outside' else None
            for v in LIT_VALUES:
                judge_union(pane, res, name, T, wrap, unwrap, mem, v, info, cache)
            res['states'] += len(LIT_VALUES)


def run_same_name_classes(pane, res):
    """Serialising a union value uses a member that accepts it: two dataclasses that merely share their NAME and field names (two
    modules, two versions) are different members - an instance of the later one is written in ITS layout and names."""
    def mk(**opts):
        return grammar.pin(type('Settings', (pane.PaneBase,), {'__annotations__': {'max_size': int, 'min_size': int}, 'min_size': 0,
                                                                '__module__': 'mc.generated'}, **opts))
    variants = [('plain', mk()), ('kebab', mk(rename='kebab')), ('tuple', mk(out_format='tuple', in_format=('tuple', 'struct'))),
                ('scream', mk(out_rename='scream', in_rename=('scream', 'snake')))]
    for (na, A), (nb, B) in itertools.permutations(variants, 2):
        grammar.fresh_typing()
        U = grammar.pin(t.Union[A, B])
        x = B.make_unchecked(max_size=3, min_size=1)
        info = {'ai': -2, 'bi': 0, 'ci': None, 'A': f"Settings[{na}]", 'B': f"Settings[{nb}]", 'C': None}
        res['states'] += 1
        res['evals'] += 1
        res['validated'] += 1
        res['transitions'] += 2
        res['nontrivial'].add(f"same_name|{na}|{nb}")
        try:
            want = pane.into_data(x, B)
            got = pane.into_data(x, U)
            # (which member READS that form back is the untagged ambiguity and not judged here: the earlier class may take it too)
            ok = values.typed_eq(got, want) or got == want
            shown = f"into_data -> {core.srepr(got, 70)}; its own class writes {core.srepr(want, 70)}"
        except BaseException as e:  # noqa
            if isinstance(e, (KeyboardInterrupt, SystemExit)):
                raise
            ok, shown = False, f"raised {type(e).__name__}: {core.sstr(e, 100)}"
        if not ok:
            core.add_violation(res, {'kind': 'serialised_as_the_other_class', 'A': info['A'], 'B': info['B']},
                               f"an instance of the second of two dataclasses that share the name 'Settings' ({nb} options) in Union[{na}, {nb}]: {shown}",
                               dict(info, form='same_name', v=f"{na}|{nb}"), 6)


def run_shard(shard, tier):
    pane = core.import_pane()
    warnings.simplefilter('ignore')
    res = core.new_result()
    if shard.get('literals'):
        run_literals(pane, res)
        run_same_name_classes(pane, res)
        return res
    ai = shard['a']
    for bi in range(ai + 1, len(POOL)):
        # both member orders in the SAME interpreter (a memo keyed by equality would confuse Union[A, B] with Union[B, A])
        for x, y in ((ai, bi), (bi, ai), (ai, bi)):
            run_pair(pane, res, x, y, None, tier)
        if tier == 'thorough':
            for ci in range(len(THIRD)):
                run_pair(pane, res, ai, bi, ci, tier)
                run_pair(pane, res, bi, ai, ci, tier)
    if ai == 0:
        res['samples'].append({'union': 'Union[int, float]', 'forms': [f[0] for f in forms(pane, int, float)],
                               'values': [values.expr(v) for v in values_for_members(['int', 'float'])[:8]]})
    return res


def replay(cell):
    pane = core.import_pane()
    warnings.simplefilter('ignore')
    res = core.new_result()
    if cell['ai'] < 0:
        run_literals(pane, res)
        run_same_name_classes(pane, res)
        out = [v for lst in res['violations'].values() for v in lst]
        return [v for v in out if v['cell'].get('bi') == cell['bi'] and v['cell'].get('form') == cell.get('form') and v['cell'].get('v') == cell.get('v')] or out
    lo, hi = sorted((cell['ai'], cell['bi']))
    # the same sequence as the shard: both member orders in one interpreter
    for x, y in ((lo, hi), (hi, lo), (lo, hi)):
        run_pair(pane, res, x, y, None, 'quick')
    if cell.get('ci') is not None:
        run_pair(pane, res, cell['ai'], cell['bi'], cell.get('ci'), 'quick')
    out = [v for lst in res['violations'].values() for v in lst]
    same = [v for v in out if v['cell'].get('form') == cell.get('form') and v['cell'].get('v') == cell.get('v')]
    return same or out
