"""
C18 - custom converter precedence and reach.
Every subset of the handler sources x target type x nesting shape x handler form x direction; each source is a *marking*
converter (multiplies by its own prime on the way in, divides on the way out), so the result identifies the source that ran.
"""
from __future__ import annotations

import itertools
import sys
import typing as t
import warnings

from mc import core, grammar, values

ID = 'C18'
META = {
    'rule': "all 2^5 subsets of the sources {field converter, call-level custom=, nearest enclosing dataclass's custom= (declared on the "
            "class itself or only inherited from its base), outer dataclass's custom=, registered global handler} x target types {int "
            "(scalar built-in), a HasConverter class, a plain class only a handler knows, a list subclass (structural built-in), str} x 17 "
            "nesting shapes (direct field, List / Optional / Dict value / variadic Tuple / Union member / struct literal / field of a "
            "nested dataclass / inherited field in a subclass with and without its own custom=, Any-typed list, dict and tuple elements) x "
            "handler forms {callable, sequence whose first handler answers NotImplemented, mapping form} x directions {from_data, "
            "into_data, convert}; the prime found in the result must be that of the source the documented order selects (field > call > "
            "nearest class > outer classes > type's own protocol / scalar built-ins > global handlers > structural built-ins); "
            "mapping-form handlers must not match parameterised or subclass lookups. Non-trivial: >= 2 competing sources or a nested shape; "
            "key = (sources, target, shape, form, direction).",
    'assumptions': ["_GLOBAL_HANDLERS and the memo are reset between cells"],
    'bounds': {'quick': 'all cells (about 9 000)', 'thorough': 'adds two-level nesting of the container shapes'},
}

P_FIELD, P_CALL, P_INNER, P_OUTER, P_GLOBAL, P_OWN = 3, 5, 7, 11, 13, 2
ALLP = P_FIELD * P_CALL * P_INNER * P_OUTER * P_GLOBAL * P_OWN
TARGETS = ['int', 'hasconv', 'plain', 'sublist', 'str']
SHAPES = ['direct', 'list', 'optional', 'dict_value', 'tuple_var', 'union', 'struct', 'nested_dc', 'inherited', 'inherited_own',
          'list_any', 'dict_any', 'tuple_any', 'generic_subscripted', 'generic_typevar_field', 'dict_any_key', 'tagged_variant']
FORMS = ['callable', 'sequence', 'mapping']
INNER_MODES = [None, 'own', 'inherited', 'unrelated']      # 'unrelated': the class has custom= handlers, but none for the target type


def plan(tier, seed):
    return [{'t': ti, 's': si} for ti in range(len(TARGETS)) for si in range(len(SHAPES))] + [{'mapping_exact': True}]


class World:
    """Target classes and marking converters for one interpreter."""

    def __init__(self, pane):
        from pane.converters import Converter
        from pane.errors import ParseInterrupt, WrongTypeError
        self.pane = pane
        world = self

        class Tok:
            def __init__(self, v):
                self.v = v

            def __eq__(self, o):
                return type(o) is type(self) and o.v == self.v

            def __hash__(self):
                return hash(self.v)

            def __repr__(self):
                return f"Tok({self.v})"

            @classmethod
            def _converter(cls, *args, handlers):
                return world.mark(cls, P_OWN)

        class Plain:
            def __init__(self, v):
                self.v = v

            def __eq__(self, o):
                return type(o) is type(self) and o.v == self.v

            def __hash__(self):
                return hash(self.v)

            def __repr__(self):
                return f"Plain({self.v})"

        class SubL(list):
            pass

        self.types = {'int': int, 'hasconv': Tok, 'plain': Plain, 'sublist': SubL, 'str': str}
        self.Converter, self.ParseInterrupt, self.WrongTypeError = Converter, ParseInterrupt, WrongTypeError
        self._marks: t.Dict[t.Tuple[t.Any, int], t.Any] = {}

    def make_value(self, target, n):
        T = self.types[target]
        return n if target == 'int' else T([n]) if target == 'sublist' else str(n) if target == 'str' else T(n)

    def number(self, target, x):
        if target == 'int':
            return x if type(x) is int else None
        if target == 'str':
            return int(x) if type(x) is str and x.lstrip('-').isdigit() else None
        if target == 'sublist':
            return x[0] if type(x) is self.types['sublist'] and len(x) == 1 else None
        return x.v if type(x) is self.types[target] else None

    def datum(self, target, n):
        return [n] if target == 'sublist' else str(n) if target == 'str' else n

    def mark(self, T, p):
        key = (T, p)
        m = self._marks.get(key)
        if m is not None:
            return m
        world = self
        target = next((k for k, v in self.types.items() if v is T), 'int')

        class Mark(self.Converter):
            def expected(self, plural=False):
                return f"mark{p}"

            def _num(self, val):
                if target == 'sublist':
                    if isinstance(val, (list, tuple)) and len(val) == 1 and type(val[0]) is int:
                        return val[0]
                    return None
                if target == 'str':
                    return int(val) if type(val) is str and val.lstrip('-').isdigit() else None
                return val if type(val) is int else None

            def try_convert(self, val):
                n = self._num(val)
                if n is None:
                    raise world.ParseInterrupt()
                return world.make_value(target, n * p)

            def collect_errors(self, val):
                return None if self._num(val) is not None else world.WrongTypeError(self.expected(), val)

            def into_data(self, val):
                n = world.number(target, val)
                if n is None:
                    raise TypeError(f"mark{p} cannot serialise {val!r}")
                return world.datum(target, n // p if n % p == 0 else -n)
        m = Mark()
        self._marks[key] = m
        return m

    def handler(self, T, p, form):
        mk = self.mark(T, p)

        def h(ty, args=(), *, handlers=None):
            return mk if ty is T and not args else NotImplemented

        def never(ty, args=(), *, handlers=None):
            return NotImplemented
        if form == 'callable':
            return h
        if form == 'sequence':
            return [never, h]
        return {T: mk}


def shape_type(pane, X, shape):
    """(field type, wrap(datum), unwrap(result), nearest-class depth) for shapes that are plain type constructors."""
    if shape == 'direct':
        return X, (lambda d: d), (lambda r: r)
    if shape == 'list':
        return t.List[X], (lambda d: [d, d]), (lambda r: r[1])
    if shape == 'optional':
        return t.Optional[X], (lambda d: d), (lambda r: r)
    if shape == 'dict_value':
        return t.Dict[str, X], (lambda d: {'k': d}), (lambda r: r['k'])
    if shape == 'tuple_var':
        return t.Tuple[X, ...], (lambda d: [d]), (lambda r: r[0])
    if shape == 'union':
        return t.Union[str, X], (lambda d: d), (lambda r: r)
    if shape == 'struct':
        return {'k': X}, (lambda d: {'k': d}), (lambda r: r['k'])
    if shape == 'list_any':
        return t.List[t.Any], (lambda d: [d]), (lambda r: r[0])
    if shape == 'dict_any':
        return t.Dict[str, t.Any], (lambda d: {'k': d}), (lambda r: r['k'])
    if shape == 'tuple_any':
        return t.Tuple[t.Any, ...], (lambda d: [d]), (lambda r: r[0])
    if shape == 'tagged_variant':        # the member is a field of a variant of a tagged union (adjacent layout)
        return _tagged_type(pane, X), (lambda d: {'t': 'a', 'c': {'v': d}}), (lambda r: r.v)
    if shape == 'dict_any_key':          # the member is a KEY of a mapping whose key type is not declared
        return t.Dict[t.Any, int], (lambda d: {d: 0}), (lambda r: next(iter(r)))
    raise KeyError(shape)


_TAGGED: t.Dict[t.Any, t.Any] = {}


def _tagged_type(pane, X):
    if X not in _TAGGED:
        from pane.annotations import Tagged
        Va = type('TVa', (pane.PaneBase,), {'__annotations__': {'v': X, 'kind': t.Literal['a']}, 'kind': 'a', '__module__': 'mc.generated'})
        Vb = type('TVb', (pane.PaneBase,), {'__annotations__': {'kind': t.Literal['b'], 'w': int}, 'kind': 'b', 'w': 0, '__module__': 'mc.generated'})
        _TAGGED[X] = (t.Annotated[t.Union[Va, Vb], Tagged('kind', external=('t', 'c'))], Va)
    return _TAGGED[X][0]


def expected_prime(target, srcs, shape):
    """srcs: dict of booleans F, C, I, O, G.  Returns the prime that must mark the result (1 = unmarked built-in), or 'TypeError'."""
    if srcs['F'] and shape in ('direct', 'generic_subscripted', 'generic_typevar_field'):
        return P_FIELD
    if srcs['C']:
        return P_CALL
    if srcs['I']:
        return P_INNER
    if srcs['O']:
        return P_OUTER
    if target in ('int', 'str'):
        return 1
    if target == 'hasconv':
        return P_OWN
    if srcs['G']:
        return P_GLOBAL
    return 1 if target == 'sublist' else 'TypeError'


def run_cell(pane, world, res, target, shape, form, mask, inner_mode, only_dir=None):
    from pane.errors import ConvertError
    pc = sys.modules['pane.convert']
    from pane.convert import make_converter
    X = world.types[target]
    srcs = {'F': bool(mask & 1), 'C': bool(mask & 2), 'I': inner_mode in ('own', 'inherited'), 'O': bool(mask & 4), 'G': bool(mask & 8)}
    call_unrelated = bool(mask & 16)
    if call_unrelated and srcs['C']:
        return
    if srcs['F'] and shape not in ('direct', 'generic_subscripted', 'generic_typevar_field'):
        return
    if target == 'str' and shape in ('dict_value', 'dict_any', 'struct', 'union', 'generic_subscripted', 'tagged_variant'):
        return      # (the str handler would also take the mapping's own str keys / the union's str member)
    if shape == 'dict_any_key' and target == 'sublist':
        return      # unhashable
    any_shape = shape.endswith('_any') or shape == 'dict_any_key'
    # ---- reset global state
    make_converter.cache.clear()
    del pc._GLOBAL_HANDLERS[1:]
    if srcs['G']:
        pane_h = world.handler(X, P_GLOBAL, 'callable')
        pc.register_converter_handler(pane_h)
    try:
        # ---- build the class nest: Outer.inner: Inner ; Inner.f: shape(X)
        inner_kw = {}
        base_kw = {}
        if inner_mode == 'own':
            inner_kw['custom'] = world.handler(X, P_INNER, form)
        elif inner_mode == 'inherited':
            base_kw['custom'] = world.handler(X, P_INNER, form)
        elif inner_mode == 'unrelated':
            # handlers that answer NotImplemented for X (they only know `bytes`): must defer to the dataclasses further out
            inner_kw['custom'] = world.handler(bytes, P_INNER, form)
        Base = type('Base', (pane.PaneBase,), {'__annotations__': {}, '__module__': 'mc.generated'}, **base_kw)
        if shape in ('nested_dc', 'inherited', 'inherited_own', 'generic_subscripted', 'generic_typevar_field'):
            ftype, wrap, unwrap = X, (lambda d: d), (lambda r: r)
        else:
            ftype, wrap, unwrap = shape_type(pane, X, shape)
        fdef = pane.field(converter=world.mark(X, P_FIELD)) if srcs['F'] else None
        ns = {'__annotations__': {'f': ftype}, '__module__': 'mc.generated'}
        if fdef is not None:
            ns['f'] = fdef
        if shape == 'nested_dc':
            # X sits in a dataclass with no handlers of its own, one level below Inner
            Leaf = type('Leaf', (pane.PaneBase,), dict(ns))
            Inner = type('Inner', (Base,), {'__annotations__': {'f': Leaf}, '__module__': 'mc.generated'}, **inner_kw)
            wrap0, unwrap0 = wrap, unwrap
            wrap, unwrap = (lambda d: {'f': wrap0(d)}), (lambda r: unwrap0(r.f))
        elif shape == 'generic_subscripted':
            # the converting class is a SUBSCRIPTED generic dataclass (its fields are re-made with the type variables replaced)
            from mc.classes_gen import new_class
            TV = t.TypeVar('TV')
            gns = dict(ns)
            gns['__annotations__'] = dict(ns['__annotations__'], g=TV)
            gns['g'] = 'g'
            GInner = new_class('Inner', (Base, t.Generic[TV]), gns, **inner_kw)
            Inner = GInner[str]
        elif shape == 'generic_typevar_field':
            # ... and here the field that carries the converter is itself typed by the type variable: Inner = G[X]
            from mc.classes_gen import new_class
            TV = t.TypeVar('TV')
            gns = dict(ns)
            gns['__annotations__'] = {'f': TV}
            GInner = new_class('Inner', (Base, t.Generic[TV]), gns, **inner_kw)
            Inner = GInner[X]
        elif shape in ('inherited', 'inherited_own'):
            # the field is declared on a parent; the converting class is a subclass (with / without its own custom=)
            Parent = type('Parent', (Base,), dict(ns), **inner_kw)
            sub_kw = {'custom': world.handler(X, P_INNER, form)} if (shape == 'inherited_own' and inner_mode in ('own', 'inherited')) else {}
            Inner = type('Inner', (Parent,), {'__annotations__': {}, '__module__': 'mc.generated'}, **sub_kw)
        else:
            Inner = type('Inner', (Base,), dict(ns), **inner_kw)
        outer_kw = {'custom': world.handler(X, P_OUTER, form)} if srcs['O'] else {}
        Outer = type('Outer', (pane.PaneBase,), {'__annotations__': {'inner': Inner}, '__module__': 'mc.generated'}, **outer_kw)
        call_custom = world.handler(X, P_CALL, form) if srcs['C'] else (world.handler(bytes, P_CALL, form) if call_unrelated else None)
        want = expected_prime(target, srcs, shape)
        cell = {'t': target, 's': shape, 'form': form, 'mask': mask, 'inner': inner_mode}
        srcnames = ('+'.join(k for k, v in srcs.items() if v) or 'none') + ('+call_unrelated' if call_unrelated else '')
        desc = f"target={target} shape={shape} form={form} sources={srcnames}{'(inner ' + inner_mode + ')' if inner_mode else ''}"
        sig = {'target': target, 'shape': shape, 'form': form}
        nontriv = sum(srcs.values()) >= 2 or shape != 'direct'

        def record(direction, outcome):
            res['evals'] += 1
            res['transitions'] += 1
            res['validated'] += 1
            res['outcomes'][f"{direction}/{outcome}"] += 1
            if nontriv:
                res['nontrivial'].add(f"{srcnames}|{inner_mode}|{target}|{shape}|{form}|{direction}")

        # ---- from_data
        x_typed = None
        if not any_shape and only_dir in (None, 'from_data'):
            data = {'inner': {'f': wrap(world.datum(target, 1))}}
            try:
                r = pane.from_data(data, Outer, custom=call_custom)
                num = world.number(target, unwrap(r.inner.f))
                got = num if num is not None else f"untyped {unwrap(r.inner.f)!r}"
                x_typed = r
            except ConvertError as e:
                got = 'ConvertError: ' + core.sstr(e, 60)
            except TypeError as e:
                got = 'TypeError'
            except Exception as e:  # noqa
                got = f"{type(e).__name__}: {core.sstr(e, 60)}"
            record('from_data', 'ok' if got == want else 'MISMATCH')
            if got != want:
                core.add_violation(res, {'kind': 'wrong_source_from_data', 'want': str(want), 'got': str(got)[:12], **sig},
                                   f"{desc}: from_data marks the value with {got!r}; the documented order selects prime {want} "
                                   f"(field={P_FIELD} call={P_CALL} nearest={P_INNER} outer={P_OUTER} own={P_OWN} global={P_GLOBAL} builtin=1)", cell, 2)
        # ---- into_data: a value holding the product of all primes; whoever serialises divides by its own prime
        if want != 'TypeError' and only_dir in (None, 'into_data'):
            val = world.make_value(target, ALLP)
            if shape == 'nested_dc':
                inner_obj = Inner.make_unchecked(f=Leaf.make_unchecked(f=val))
            elif any_shape or shape not in ('direct', 'inherited', 'inherited_own', 'generic_subscripted', 'generic_typevar_field'):
                container = {'list': lambda: [val, val], 'optional': lambda: val, 'dict_value': lambda: {'k': val}, 'tuple_var': lambda: (val,),
                             'union': lambda: val, 'struct': lambda: {'k': val}, 'list_any': lambda: [val], 'dict_any': lambda: {'k': val},
                             'tuple_any': lambda: (val,), 'dict_any_key': lambda: {val: 0},
                             'tagged_variant': lambda: _TAGGED[X][1].make_unchecked(v=val)}[shape]()
                inner_obj = Inner.make_unchecked(f=container)
            else:
                inner_obj = Inner.make_unchecked(f=val)
            outer_obj = Outer.make_unchecked(inner=inner_obj)
            want_out = ALLP // (want if want != 1 else 1)
            if any_shape:
                # an Any-typed position has no declared type: on the way out the member's runtime type decides, with the same handlers
                want_any = expected_prime(target, dict(srcs, F=False), 'list')
                want_out = ALLP // want_any if want_any != 'TypeError' else 'TypeError'
            try:
                d = pane.into_data(outer_obj, Outer, custom=call_custom)
                leaf = d['inner']['f']
                if shape == 'nested_dc':
                    leaf = leaf['f']
                leaf = unwrap_data(shape, leaf)
                got = leaf[0] if target == 'sublist' and isinstance(leaf, (list, tuple)) and len(leaf) == 1 else leaf
                if target == 'str' and type(got) is str and got.lstrip('-').isdigit():
                    got = int(got)
            except TypeError as e:
                got = 'TypeError'
            except Exception as e:  # noqa
                got = f"{type(e).__name__}: {core.sstr(e, 60)}"
            record('into_data', 'ok' if got == want_out else 'MISMATCH')
            if got != want_out:
                who = ALLP // got if isinstance(got, int) and got and ALLP % got == 0 else got
                core.add_violation(res, {'kind': 'wrong_source_into_data', 'want': str(want if not any_shape else want_any), 'got': str(who)[:12], **sig},
                                   f"{desc}: into_data serialised the member with source prime {who!r} (raw {got!r}); the documented order selects "
                                   f"{want if not any_shape else want_any}", cell, 2)
        # ---- convert: the value from_data produced is a fixed point under the same handlers
        if x_typed is not None and want != 'TypeError' and only_dir in (None, 'convert') and not (srcs['C'] and target in ('plain',) and False):
            try:
                y = pane.convert(x_typed, Outer, custom=call_custom)
                got = 'equal' if y == x_typed else f"{y!r}"
            except Exception as e:  # noqa
                got = f"{type(e).__name__}: {core.sstr(e, 60)}"
            record('convert', 'ok' if got == 'equal' else 'MISMATCH')
            if got != 'equal':
                core.add_violation(res, {'kind': 'convert_not_fixed_point', **sig},
                                   f"{desc}: convert(from_data result) under the same handlers gives {got}, expected an equal value", cell, 2)
    finally:
        del pc._GLOBAL_HANDLERS[1:]
        make_converter.cache.clear()
        core.clear_subscription_memo()
    res['states'] += 1


def unwrap_data(shape, leaf):
    if shape in ('list',):
        return leaf[1]
    if shape in ('dict_value', 'struct', 'dict_any'):
        return leaf['k']
    if shape in ('tuple_var', 'list_any', 'tuple_any'):
        return leaf[0]
    if shape == 'dict_any_key':
        return next(iter(leaf))
    if shape == 'tagged_variant':
        return leaf['c']['v']
    return leaf


def run_mapping_exact(pane, world, res):
    """A mapping-form handler matches only the exact unparameterised type."""
    SubL = world.types['sublist']
    mk_list = world.mark(SubL, P_CALL)          # any marking converter will do as a recognisable result
    cases = [
        ('List[int] with {list: conv}', t.List[int], {list: mk_list}, [1], [1]),
        ('list subclass with {list: conv}', SubL, {list: mk_list}, [1], SubL([1])),
        ('Dict[str, int] with {dict: conv}', t.Dict[str, int], {dict: mk_list}, {'a': 1}, {'a': 1}),
        ('bool with {int: conv}', bool, {int: world.mark(int, P_CALL)}, True, True),
        ('exact int with {int: conv}', int, {int: world.mark(int, P_CALL)}, 4, 4 * P_CALL),
        ('exact list with {list: conv}', list, {list: mk_list}, [1], SubL([P_CALL])),
    ]
    for label, T, custom, data, want in cases:
        res['states'] += 1
        res['evals'] += 1
        res['validated'] += 1
        res['transitions'] += 1
        res['nontrivial'].add(f"mapping_exact|{label}")
        try:
            got = pane.from_data(values.fresh(data), T, custom=custom)
        except Exception as e:  # noqa
            got = f"{type(e).__name__}: {core.sstr(e, 60)}"
        if not (values.typed_eq(got, want) or (type(got) is type(want) and got == want)):
            core.add_violation(res, {'kind': 'mapping_form_match', 'case': label},
                               f"mapping-form handler, {label}: from_data({data!r}) gave {got!r}, expected {want!r} "
                               f"(a mapping entry matches only the exact unparameterised type)", {'mapping_exact': True, 'case': label}, 2)


def run_histories(pane, world, res):
    """(a) one mapping object passed as custom= repeatedly while the application changes its entries;
       (b) three nesting levels whose outermost and innermost dataclass share one handler object."""
    from pane.convert import make_converter
    m3, m5, m7 = world.mark(int, 3), world.mark(int, 5), world.mark(int, 7)
    registry: t.Dict[t.Any, t.Any] = {}
    steps = [('add int->x5', lambda: registry.__setitem__(int, m5), 5), ('replace int->x7', lambda: registry.__setitem__(int, m7), 7),
             ('add unrelated bytes', lambda: registry.__setitem__(bytes, world.mark(int, 3)), 7), ('delete int', lambda: registry.__delitem__(int), 1),
             ('add int->x3', lambda: registry.__setitem__(int, m3), 3)]
    for T, wrapd, unwrap in ((int, lambda d: d, lambda r: r), (t.List[int], lambda d: [d], lambda r: r[0]), (t.Dict[str, int], lambda d: {'k': d}, lambda r: r['k'])):
        make_converter.cache.clear()
        registry.clear()
        hist = []
        for label, act, want in steps:
            act()
            hist.append(label)
            res['states'] += 1
            res['evals'] += 1
            res['validated'] += 1
            res['transitions'] += 1
            res['nontrivial'].add(f"registry|{T}|{label}")
            try:
                got = unwrap(pane.from_data(wrapd(1), T, custom=registry))
            except Exception as e:  # noqa
                got = f"{type(e).__name__}: {core.sstr(e, 60)}"
            if got != want:
                core.add_violation(res, {'kind': 'stale_mapping_handlers', 'step': label},
                                   f"one mapping object passed as custom= across calls, after {hist}: from_data(1, {T!r}) gave {got!r}, "
                                   f"its current entries select x{want}", {'histories': True, 'what': 'registry'}, len(hist))
                break
    # (b) Outer > Mid > Inner; Outer and Inner use the SAME handler object, Mid a different one: the nearest (Inner's) wins
    for form in FORMS:
        make_converter.cache.clear()
        shared = world.handler(int, P_OUTER, form)
        mid_h = world.handler(int, P_INNER, form)
        Inner = type('Inner3', (pane.PaneBase,), {'__annotations__': {'f': int}, '__module__': 'mc.generated'}, custom=shared)
        Mid = type('Mid3', (pane.PaneBase,), {'__annotations__': {'inner': Inner, 'm': int}, '__module__': 'mc.generated'}, custom=mid_h)
        Outer = type('Outer3', (pane.PaneBase,), {'__annotations__': {'mid': Mid, 'o': int}, '__module__': 'mc.generated'}, custom=shared)
        res['states'] += 1
        res['evals'] += 1
        res['validated'] += 1
        res['nontrivial'].add(f"three_level|{form}")
        try:
            r = pane.from_data({'mid': {'inner': {'f': 1}, 'm': 1}, 'o': 1}, Outer)
            got = (r.mid.inner.f, r.mid.m, r.o)
        except Exception as e:  # noqa
            got = f"{type(e).__name__}: {core.sstr(e, 60)}"
        want = (P_OUTER, P_INNER, P_OUTER)
        if got != want:
            core.add_violation(res, {'kind': 'three_level_shared_handler', 'form': form},
                               f"Outer > Mid > Inner where Outer and Inner share one handler object ({form} form): primes (inner.f, mid.m, outer.o) = "
                               f"{got!r}, expected {want!r} (the nearest enclosing dataclass wins)", {'histories': True, 'what': 'three_level'}, 3)


def run_role_histories(pane, world, res):
    """One handler OBJECT used in two roles in successive conversions: as the class handler of an enclosing dataclass, then as the
    handler passed to a call (and the other way round).  The role it has in a call decides its rank, not where it was seen before."""
    from pane.convert import make_converter
    for form in ('callable', 'sequence'):
        for order in ('class_then_call', 'call_then_class'):
            make_converter.cache.clear()
            h = world.handler(int, P_CALL, form)          # the shared object: marks with 5 whatever its role
            h2 = world.handler(int, P_INNER, form)        # Inner's own: marks with 7
            Inner = type('InnerR', (pane.PaneBase,), {'__annotations__': {'f': int}, '__module__': 'mc.generated'}, custom=h2)
            Outer = type('OuterR', (pane.PaneBase,), {'__annotations__': {'inner': Inner, 'o': int}, '__module__': 'mc.generated'}, custom=h)
            steps = [('Outer.from_data (h is the class handler of Outer)', lambda: (lambda r: (r.inner.f, r.o))(pane.from_data({'inner': {'f': 1}, 'o': 1}, Outer)), (P_INNER, P_CALL)),
                     ('Inner.from_data(custom=h) (h is passed to the call)', lambda: pane.from_data({'f': 1}, Inner, custom=h).f, P_CALL),
                     ('Inner.from_data() (no call handlers)', lambda: pane.from_data({'f': 1}, Inner).f, P_INNER)]
            if order == 'call_then_class':
                steps = [steps[1], steps[0], steps[2], steps[1]]
            else:
                steps = steps + [steps[0]]
            hist = []
            for label, run, want in steps:
                hist.append(label)
                res['states'] += 1
                res['evals'] += 1
                res['validated'] += 1
                res['transitions'] += 1
                res['nontrivial'].add(f"roles|{form}|{order}|{len(hist)}")
                try:
                    got = run()
                except Exception as e:  # noqa
                    got = f"{type(e).__name__}: {core.sstr(e, 60)}"
                if got != want:
                    core.add_violation(res, {'kind': 'handler_rank_depends_on_history', 'form': form, 'order': order},
                                       f"one handler object ({form} form) as class handler of Outer and as call handler, history {hist}: marks {got!r}, "
                                       f"expected {want!r} (call={P_CALL} beats the class's own={P_INNER})", {'histories': True, 'what': 'roles'}, len(hist))
                    break


def run_io_entry_points(pane, world, res):
    """The file readers and writers take custom= too: handlers passed to THOSE calls apply like handlers passed to from_data / into_data."""
    import io as _io
    for form in FORMS:
        h = world.handler(int, P_CALL, form)
        Cls = type('IoC', (pane.PaneBase,), {'__annotations__': {'f': int, 'g': t.List[int]}, '__module__': 'mc.generated'})
        cases = [
            ('from_json', lambda: pane.from_json(_io.StringIO('[1, 1]'), t.List[int], custom=h), [P_CALL, P_CALL]),
            ('from_yaml', lambda: pane.from_yaml(_io.StringIO('[1, 1]'), t.List[int], custom=h), [P_CALL, P_CALL]),
            ('from_yaml_all', lambda: pane.from_yaml_all(_io.StringIO('--- 1\n--- 1\n'), int, custom=h), [P_CALL, P_CALL]),
            ('Cls.from_json', lambda: (lambda r: [r.f] + r.g)(Cls.from_json(_io.StringIO('{"f": 1, "g": [1]}'), custom=h)), [P_CALL, P_CALL]),
            ('Cls.from_yaml_all', lambda: [r.f for r in Cls.from_yaml_all(_io.StringIO('--- {f: 1, g: []}\n--- {f: 1, g: []}\n'), custom=h)], [P_CALL, P_CALL]),
            ('write_json', lambda: (lambda b: (pane.write_json([ALLP, ALLP], b, ty=t.List[int], custom=h), __import__('json').loads(b.getvalue()))[1])(_io.StringIO()),
             [ALLP // P_CALL, ALLP // P_CALL]),
            ('write_yaml', lambda: (lambda b: (pane.write_yaml([ALLP], b, ty=t.List[int], custom=h), __import__('yaml').safe_load(b.getvalue()))[1])(_io.StringIO()),
             [ALLP // P_CALL]),
            ('obj.write_json', lambda: __import__('json').loads(Cls.make_unchecked(f=ALLP, g=[ALLP]).write_json(custom=h)), {'f': ALLP // P_CALL, 'g': [ALLP // P_CALL]}),
        ]
        for name, run, want in cases:
            res['states'] += 1
            res['evals'] += 1
            res['validated'] += 1
            res['transitions'] += 1
            res['nontrivial'].add(f"io|{name}|{form}")
            try:
                got = run()
            except Exception as e:  # noqa
                got = f"{type(e).__name__}: {core.sstr(e, 80)}"
            if got != want:
                core.add_violation(res, {'kind': 'io_entry_point_ignores_call_handlers', 'entry': name, 'form': form},
                                   f"{name}(..., custom=<{form} handler for int, prime {P_CALL}>) gave {got!r}, expected {want!r}",
                                   {'histories': True, 'what': 'io'}, 3)


def run_init_false(pane, world, res):
    """A field that is not a constructor argument (init=False) is still WRITTEN: on the way out the handlers must reach it
    like any other field of its type (call level, the class itself, an enclosing class)."""
    from pane.convert import make_converter
    for form in FORMS:
        for where in ('call', 'class', 'outer'):
            make_converter.cache.clear()
            h = world.handler(int, P_CALL, form)
            def post(self):
                # (the documented way: the class fills its init=False fields in here)
                object.__setattr__(self, 'f', ALLP)
                object.__setattr__(self, 'h', [ALLP])
            Inner = type('InnerNF', (pane.PaneBase,), {'__annotations__': {'g': int, 'f': int, 'h': t.List[int]},
                                                       'f': pane.field(init=False), 'h': pane.field(init=False),
                                                       '__post_init__': post,
                                                       '__module__': 'mc.generated'}, **({'custom': h} if where == 'class' else {}))
            Outer = type('OuterNF', (pane.PaneBase,), {'__annotations__': {'inner': Inner}, '__module__': 'mc.generated'},
                         **({'custom': h} if where == 'outer' else {}))
            res['states'] += 1
            res['evals'] += 1
            res['validated'] += 1
            res['transitions'] += 1
            res['nontrivial'].add(f"init_false|{form}|{where}")
            try:
                obj = Outer.make_unchecked(inner=Inner(g=ALLP))
                d = pane.into_data(obj, Outer, custom=h if where == 'call' else None)
                got = (d['inner']['g'], d['inner']['f'], d['inner']['h'][0])
            except Exception as e:  # noqa
                got = f"{type(e).__name__}: {core.sstr(e, 60)}"
            want = (ALLP // P_CALL,) * 3
            if got != want:
                core.add_violation(res, {'kind': 'init_false_field_misses_handler', 'form': form, 'where': where},
                                   f"{form} handler for int given at the {where} level: into_data of a class with g: int and the init=False "
                                   f"fields f: int, h: List[int] wrote (g, f, h[0]) = {got!r}; the handler divides each by {P_CALL}: {want!r}",
                                   {'histories': True, 'what': 'init_false'}, 3)


def run_shard(shard, tier):
    pane = core.import_pane()
    warnings.simplefilter('ignore')
    res = core.new_result()
    world = World(pane)
    if shard.get('mapping_exact'):
        run_mapping_exact(pane, world, res)
        run_histories(pane, world, res)
        run_role_histories(pane, world, res)
        run_io_entry_points(pane, world, res)
        run_init_false(pane, world, res)
        return res
    target, shape = TARGETS[shard['t']], SHAPES[shard['s']]
    for form in FORMS:
        for mask in range(32):
            for inner_mode in INNER_MODES:
                try:
                    run_cell(pane, world, res, target, shape, form, mask, inner_mode)
                except Exception as e:  # noqa
                    import traceback
                    tb = traceback.extract_tb(e.__traceback__)[-1]
                    core.add_violation(res, {'kind': 'oracle_exception', 'exc': type(e).__name__, 'where': tb.lineno},
                                       f"cell {target} {shape} {form} {mask} {inner_mode} raised {type(e).__name__}: {core.sstr(e)} (line {tb.lineno})",
                                       {'t': target, 's': shape, 'form': form, 'mask': mask, 'inner': inner_mode}, 9)
    if shard['t'] == 1 and shard['s'] == 1:
        res['samples'].append({'target': target, 'shape': shape, 'form': 'sequence', 'sources': 'C+I+G', 'expected_prime': P_CALL})
    return res


def replay(cell):
    pane = core.import_pane()
    warnings.simplefilter('ignore')
    res = core.new_result()
    world = World(pane)
    if cell.get('mapping_exact') or cell.get('histories'):
        run_mapping_exact(pane, world, res)
        run_histories(pane, world, res)
        run_init_false(pane, world, res)
        out = [v for lst in res['violations'].values() for v in lst]
        return [v for v in out if v['cell'] == cell] or out
    run_cell(pane, world, res, cell['t'], cell['s'], cell['form'], cell['mask'], cell['inner'])
    return [v for lst in res['violations'].values() for v in lst]
