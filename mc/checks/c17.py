"""
C17 - inheritance and generics resolve fields, order and types correctly.
Class-hierarchy PROGRAMS are enumerated and built as real classes; a small symbolic model computes the effective fields.
"""
from __future__ import annotations

import dataclasses
import inspect
import itertools
import typing as t
import warnings

from mc import core, grammar, values
from mc.classes_gen import new_class, style_name

ID = 'C17'
META = {
    'rule': "programs = chains of depth <= 3 (plus two-base mixins): root {non-generic, Generic[T], Generic[T,U]} with fields whose types "
            "range over {int, T, List[T], Optional[T], Dict[str,T], typing Tuple[T,int], tuple literal (T,int), struct literal {'k':T}, "
            "Box[T] (a generic pane class), Annotated[T, cond]}; every further level picks a generic form {plain, bind all, forward to "
            "fresh variables, swap, partial bind + re-declared Generic[V], explicit Generic[...] in another order, nested argument "
            "List[U]}, a field action {none, add required / defaulted / keyword-only field, KW_ONLY marker, re-declare an inherited field "
            "with a new type and/or default} and one option setting {in_format, rename, allow_extra, kw_only, frozen, custom} or none; the "
            "leaf is subscripted with concrete arguments. Oracle: a symbolic model computes effective fields (MRO order, override in "
            "place, own fields, keyword-only behind), parameters and substituted types; compared with inspect.signature (names, kinds, "
            "defaults, annotations structurally), repr order, positional binding of sequence data, acceptance of right / rejection of "
            "wrong values per substituted type, and behavioural option inheritance (extra key, output names, tuple layout, frozen "
            "setattr, handler effect); a mirror dataclasses hierarchy is the second opinion on parameter order and on refused programs. "
            "Non-trivial: depth >= 2; key = (generic forms, field actions, options, type shape).",
    'assumptions': ["substituted types are compared structurally (origin + args), so list[int] and typing.List[int] are equal"],
    'bounds': {'quick': 'depth <= 2 all forms; depth 3 over a reduced alphabet', 'thorough': 'depth 3 with all generic forms and two option settings'},
}

# ------------------------------------------------------------------ mini type language

TYPES = ['int', ['var'], ['list', ['var']], ['opt', ['var']], ['dict', ['var']], ['tuple', ['var']], ['tuplelit', ['var']],
         ['struct', ['var']], ['box', ['var']], ['annot', ['var']], ['pair', ['var']],
         # a generic dataclass below a container / Optional / condition, and through a re-parameterised alias (BoxL = Box[List[V]])
         ['list', ['box', ['var']]], ['opt', ['box', ['var']]], ['dict', ['box', ['var']]], ['annot', ['box', ['var']]], ['boxl', ['var']],
         # a union that mentions the variable next to an overlapping member, in both orders (members are tried left to right)
         ['unionf', ['var']], ['funion', ['var']],
         # two generic dataclasses deep: the inner one is itself an ARGUMENT of the outer one (typing does not see variables inside
         # an argument that is a real class)
         ['box', ['box', ['var']]], ['box', ['pair', ['var']]]]
CONCRETE = ['int', 'str', 'float']
VARNAMES = ['T', 'U', 'V', 'W']
_TV = {n: t.TypeVar(n) for n in VARNAMES}
_BOX: t.Dict[str, t.Any] = {}


def box_class(pane):
    if 'B' not in _BOX:
        _BOX['B'] = grammar.pin(new_class('Box', (pane.PaneBase, t.Generic[_TV['T']]), {'__annotations__': {'item': _TV['T']}, '__module__': 'mc.generated'}))
    return _BOX['B']


def pair_class(pane):
    if 'P' not in _BOX:
        _BOX['P'] = grammar.pin(new_class('Pair', (pane.PaneBase, t.Generic[_TV['T'], _TV['U']]),
                                          {'__annotations__': {'first': _TV['T'], 'second': _TV['U']}, '__module__': 'mc.generated'}))
    return _BOX['P']


def subst(ty, binding):
    """Symbolic substitution: ['var', name] -> binding[name] (another type term)."""
    if isinstance(ty, str):
        return ty
    if ty[0] == 'var':
        return binding.get(ty[1], ty)
    return [ty[0]] + [subst(x, binding) for x in ty[1:]]


def named(ty, name):
    """Instantiate the anonymous ['var'] of a template with a variable name."""
    if isinstance(ty, str):
        return ty
    if ty == ['var']:
        return ['var', name]
    return [ty[0]] + [named(x, name) for x in ty[1:]]


def free_vars(ty, acc=None):
    acc = [] if acc is None else acc
    if isinstance(ty, str):
        return acc
    if ty[0] == 'var':
        if ty[1] not in acc:
            acc.append(ty[1])
        return acc
    for x in ty[1:]:
        free_vars(x, acc)
    return acc


_CONDS: t.Dict[str, t.Any] = {}


def build_type(pane, ty):
    if 'c' not in _CONDS:
        from pane.annotations import Condition
        _CONDS['c'] = grammar.pin(Condition(lambda v: v is not None, 'present'))
    Positive = _CONDS['c']
    if isinstance(ty, str):
        return {'int': int, 'str': str, 'float': float}[ty]
    h = ty[0]
    if h == 'var':
        return _TV[ty[1]]
    a = build_type(pane, ty[1])
    if h == 'list':
        return t.List[a]
    if h == 'opt':
        return t.Optional[a]
    if h == 'dict':
        return t.Dict[str, a]
    if h == 'tuple':
        return t.Tuple[a, int]
    if h == 'tuplelit':
        return (a, int)
    if h == 'struct':
        return {'k': a}
    if h == 'box':
        return box_class(pane)[a]
    if h == 'pair':
        return pair_class(pane)[a, int]        # a two-parameter generic dataclass, partially re-parameterised
    if h == 'unionf':
        return t.Union[a, float]
    if h == 'funion':
        return t.Union[float, a]
    if h == 'boxl':
        if 'BL' not in _BOX:
            _BOX['BL'] = grammar.pin(box_class(pane)[t.List[_TV['V']]])       # BoxL = Box[List[V]], still generic in V
        return _BOX['BL'][a]                                                  # BoxL[a] is Box[List[a]]
    if h == 'annot':
        return t.Annotated[a, Positive]
    raise KeyError(h)


def type_struct(obj):
    """Structural form of a real type object (so that list[int] == typing.List[int])."""
    if isinstance(obj, t.TypeVar):
        return ('var', obj.__name__)
    if isinstance(obj, tuple):
        return ('tuplelit',) + tuple(type_struct(x) for x in obj)
    if isinstance(obj, dict):
        return ('struct',) + tuple((k, type_struct(v)) for k, v in obj.items())
    if isinstance(obj, type) and '__pane_boundvars__' in obj.__dict__:
        # a subscripted generic dataclass is what its fields say it is (Box[List[int]] and BoxL[int], BoxL = Box[List[V]], are the same type)
        return ('paneclass', obj.__name__) + tuple((f.name, type_struct(f.type)) for f in obj.__pane_info__.fields)
    origin = t.get_origin(obj)
    if origin is None:
        return ('leaf', getattr(obj, '__name__', repr(obj)))
    if origin is t.Annotated:
        return ('annot', type_struct(t.get_args(obj)[0]))
    args = t.get_args(obj)
    if origin is t.Union:
        return ('union',) + tuple(sorted(map(type_struct, args), key=repr))
    return (getattr(origin, '__name__', repr(origin)),) + tuple(type_struct(a) for a in args if a is not Ellipsis)


def sample(ty, good=True):
    """A datum accepted / rejected by the (closed) type term; None if no wrong value exists (unbound variable = Any)."""
    if isinstance(ty, str):
        return {'int': (3, 'x'), 'str': ('s', 3), 'float': (2.5, 'x')}[ty][0 if good else 1]
    h = ty[0]
    if h == 'var':
        return 5 if good else None          # an unbound variable is Any; 5 also satisfies a condition attached to it
    inner = sample(ty[1], good)
    if inner is None:
        return None
    if h == 'list':
        return [inner]
    if h == 'opt':
        return inner
    if h == 'dict':
        return {'q': inner}
    if h in ('tuple', 'tuplelit'):
        return [inner, 1]
    if h == 'struct':
        return {'k': inner}
    if h == 'box':
        return {'item': inner}
    if h == 'pair':
        return {'first': inner, 'second': 1}
    if h == 'boxl':
        return {'item': [inner]}
    if h in ('unionf', 'funion'):
        return inner if good else None          # (a wrong value for the variable may still be a float: no firm wrong sample)
    if h == 'annot':
        return inner
    raise KeyError(h)


# ------------------------------------------------------------------ programs

FIELD_ACTIONS = ['none', 'add_req', 'add_default', 'add_kw', 'kw_marker_add', 'redeclare_type', 'redeclare_default', 'add_conv']
OPTIONS = [None, ('in_format', ['tuple', 'struct']), ('rename', 'camel'), ('allow_extra', True), ('kw_only', True), ('frozen', False), ('custom', 'x3')]
ROOT_KINDS = ['nongeneric', 'generic1', 'generic2']
FORMS = ['plain', 'bind_all', 'forward', 'swap', 'partial_redeclare', 'generic_reorder', 'nested_arg', 'regeneric']


def programs(tier):
    """Yield program dicts. A program is a list of level descriptors."""
    idx = 0
    for rk in ROOT_KINDS:
        for ti, rt in enumerate(TYPES):
            if rk == 'nongeneric' and ti > 0:
                continue
            root = {'kind': rk, 'type': ti}
            # depth 1
            yield idx, [root]
            idx += 1
            forms = [f for f in FORMS if form_applicable(f, rk)]
            for form in forms:
                for fa in FIELD_ACTIONS:
                    for fty in ([0, 1, 2] if fa in ('add_req', 'add_default', 'redeclare_type') else [0]):
                        for oi in range(len(OPTIONS)):
                            if tier == 'quick' and oi and (fty or fa not in ('none', 'add_default', 'add_kw')):
                                continue
                            lvl = {'form': form, 'action': fa, 'ftype': fty, 'opt': oi}
                            yield idx, [root, lvl]
                            idx += 1
                            # depth 3: restricted alphabet
                            if oi == 0 and fty == 0 and (tier == 'thorough' or ti in (1, 2, 8, 10)):
                                for form2 in ('plain', 'bind_all', 'forward', 'nested_arg', 'regeneric'):
                                    for fa2 in ('none', 'add_default', 'redeclare_type') + (('add_req_var',) if form2 == 'regeneric' else ()):
                                        for oi2 in ((0, 3, 5) if tier == 'quick' else range(len(OPTIONS))):
                                            yield idx, [root, lvl, {'form': form2, 'action': fa2, 'ftype': 0, 'opt': oi2}]
                                            idx += 1


def form_applicable(form, root_kind):
    n = {'nongeneric': 0, 'generic1': 1, 'generic2': 2}[root_kind]
    if form == 'plain':
        return True
    if n == 0 or form == 'regeneric':      # (regeneric only makes sense below a level that bound everything: used at depth 3)
        return False
    if form in ('swap', 'partial_redeclare', 'generic_reorder'):
        return n == 2
    return True


class Model:
    """Symbolic effective state of one class level."""

    def __init__(self):
        self.params: t.List[str] = []
        self.fields: t.List[t.Dict[str, t.Any]] = []       # declaration order with overrides in place: name, type, default(bool/val), kw_only
        self.opts = {'in_format': ['struct'], 'rename': None, 'allow_extra': False, 'kw_only': False, 'frozen': True, 'custom': None}

    def copy(self):
        m = Model()
        m.params = list(self.params)
        m.fields = [dict(f) for f in self.fields]
        m.opts = dict(self.opts)
        return m

    def effective(self):
        return [f for f in self.fields if not f['kw_only']] + [f for f in self.fields if f['kw_only']]

    def refused(self):
        """Would class creation be refused (mandatory positional after defaulted positional; mandatory kw-only with tuple input)?"""
        seen_default = False
        for f in self.effective():
            if f['kw_only']:
                if not f['has_default'] and 'tuple' in self.opts['in_format']:
                    return 'kw_only mandatory with tuple in_format'
                continue
            if f['has_default']:
                seen_default = True
            elif seen_default:
                return 'mandatory after default'
        return None


class Refused(Exception):
    pass


def realise(pane, prog):
    """Build the real classes and the model, level by level. Returns (classes, models) or raises Refused(level, exc, model)."""
    from pane.converters import Converter
    from pane.errors import ParseInterrupt, WrongTypeError
    classes, models = [], []
    x3 = _times3(pane)
    fresh_names = iter(['V', 'W', 'U', 'T'])
    for li, lvl in enumerate(prog):
        ns: t.Dict[str, t.Any] = {'__annotations__': {}, '__module__': 'mc.generated'}
        kw: t.Dict[str, t.Any] = {}
        if li == 0:
            m = Model()
            rk = lvl['kind']
            m.params = {'nongeneric': [], 'generic1': ['T'], 'generic2': ['T', 'U']}[rk]
            bases: t.Tuple[t.Any, ...] = (pane.PaneBase,)
            if m.params:
                bases += (t.Generic[tuple(_TV[p] for p in m.params)],)
            ft = named(TYPES[lvl['type']], 'T') if m.params else TYPES[lvl['type']]
            if not m.params and not isinstance(ft, str):
                ft = 'int'
            m.fields.append({'name': 'fld_a', 'type': ft, 'has_default': False, 'default': None, 'kw_only': False})
            ns['__annotations__']['fld_a'] = build_type(pane, ft)
            if rk == 'generic2':
                m.fields.append({'name': 'fld_b', 'type': ['var', 'U'], 'has_default': False, 'default': None, 'kw_only': False})
                ns['__annotations__']['fld_b'] = _TV['U']
        else:
            parent, pm = classes[-1], models[-1]
            m = pm.copy()
            form = lvl['form']
            explicit_generic = None
            if form == 'regeneric' and not pm.params and prog[0]['kind'] != 'nongeneric':
                # every variable is bound further up; this level is generic AGAIN, over the very TypeVar object the root used:
                # the old binding concerns the inherited fields only, the new variable only the fields declared from here on
                base = parent
                binding = {}
                explicit_generic = ['T']
                m.params = ['T']
            elif form in ('plain', 'regeneric') or not pm.params:      # (regeneric above a still generic parent: plain inheritance)
                base = parent
                binding = {}
            else:
                n = len(pm.params)
                if form == 'bind_all':
                    args = [CONCRETE[i % 3] for i in range(n)]
                elif form == 'forward':
                    args = [['var', next(fresh_names)] for _ in range(n)]
                elif form == 'swap':
                    args = [['var', pm.params[1]], ['var', pm.params[0]]] if n == 2 else [['var', p] for p in pm.params]
                elif form == 'partial_redeclare':
                    v = next(fresh_names)
                    args = ['int'] + [['var', v]] * (n - 1)
                    explicit_generic = [v]
                elif form == 'generic_reorder':
                    v, w = next(fresh_names), next(fresh_names)
                    args = [['var', v]] + [['var', w]] * (n - 1)
                    explicit_generic = [w, v] if n > 1 else [v]
                elif form == 'nested_arg':
                    v = next(fresh_names)
                    args = [['list', ['var', v]]] + [['var', v]] * (n - 1)
                else:
                    raise KeyError(form)
                binding = dict(zip(pm.params, args))
                base = parent[tuple(build_type(pane, a) for a in args)]
                newp: t.List[str] = []
                for a in args:
                    free_vars(a, newp)
                m.params = explicit_generic if explicit_generic is not None else newp
                for f in m.fields:
                    f['type'] = subst(f['type'], binding)
            bases = (base,)
            if explicit_generic is not None:
                bases += (t.Generic[tuple(_TV[p] for p in explicit_generic)],)
            # options at this level
            opt = OPTIONS[lvl['opt']]
            if opt is not None:
                k, v = opt
                if k == 'custom':
                    kw['custom'] = {int: x3}
                    m.opts['custom'] = 'x3'
                else:
                    kw[k] = v
                    m.opts[k] = v
                    if k == 'rename':
                        pass
            # field action
            act = lvl['action']
            var = m.params[0] if m.params else None
            fty_pool = ['int', ['var', var] if var else 'str', ['list', ['var', var]] if var else 'float']
            fty = fty_pool[lvl['ftype']]
            lvl_kw = m.opts['kw_only']
            newname = f"fld_{'cde'[li - 1]}"
            if act == 'add_req':
                m.fields.append({'name': newname, 'type': fty, 'has_default': False, 'default': None, 'kw_only': lvl_kw})
                ns['__annotations__'][newname] = build_type(pane, fty)
            elif act == 'add_req_var':
                vt = ['var', var] if var else 'str'
                m.fields.append({'name': newname, 'type': vt, 'has_default': False, 'default': None, 'kw_only': True})
                ns['__annotations__'][newname] = build_type(pane, vt)
                ns[newname] = pane.field(kw_only=True)
            elif act == 'add_default':
                m.fields.append({'name': newname, 'type': 'int', 'has_default': True, 'default': 7, 'kw_only': lvl_kw})
                ns['__annotations__'][newname] = int
                ns[newname] = 7
            elif act == 'add_kw':
                m.fields.append({'name': newname, 'type': 'str', 'has_default': True, 'default': 'kw', 'kw_only': True})
                ns['__annotations__'][newname] = str
                ns[newname] = pane.field(default='kw', kw_only=True)
            elif act == 'kw_marker_add':
                m.fields.append({'name': newname, 'type': 'int', 'has_default': True, 'default': 1, 'kw_only': True})
                ns['__annotations__']['_'] = pane.KW_ONLY
                ns['__annotations__'][newname] = int
                ns[newname] = 1
            elif act == 'add_conv':
                # a field with its own converter whose ANNOTATION mentions the class's type variable: the annotation is still what
                # the signature shows, so it has to be substituted like any other
                cty = ['list', ['var', var]] if var else 'int'
                m.fields.append({'name': newname, 'type': cty, 'has_default': True, 'default': None, 'kw_only': lvl_kw, 'conv': True})
                ns['__annotations__'][newname] = build_type(pane, cty)
                ns[newname] = pane.field(default=None, converter=_passthrough(pane))
            elif act in ('redeclare_type', 'redeclare_default'):
                tgt = m.fields[0]
                if act == 'redeclare_type':
                    tgt['type'] = {0: 'str', 1: 'float', 2: ['list', 'str']}[lvl['ftype']]
                    ns['__annotations__'][tgt['name']] = build_type(pane, tgt['type'])
                    # (like the standard library: a re-declaration without a value keeps the inherited class attribute as its default)
                    tgt['kw_only'] = lvl_kw
                else:
                    tgt['type'] = 'int'
                    ns['__annotations__'][tgt['name']] = int
                    ns[tgt['name']] = 42
                    tgt['has_default'], tgt['default'] = True, 42
                    tgt['kw_only'] = lvl_kw
        why = m.refused()
        try:
            cls = new_class(f"L{li}", bases, ns, **kw)
        except Exception as e:  # noqa
            raise Refused(li, e, m, why)
        if why:
            raise Refused(li, None, m, why)
        grammar.pin(cls)
        classes.append(cls)
        models.append(m)
    return classes, models


_X3: t.Dict[str, t.Any] = {}


def _passthrough(pane):
    if 'p' not in _X3:
        from pane.converters import Converter

        class PassThrough(Converter):
            def expected(self, plural=False):
                return 'anything'

            def try_convert(self, val):
                return val

            def collect_errors(self, val):
                return None

            def into_data(self, val):
                return val
        _X3['p'] = PassThrough()
    return _X3['p']


def _times3(pane):
    if 'c' not in _X3:
        from pane.converters import Converter
        from pane.errors import ParseInterrupt, WrongTypeError

        class Times3(Converter):
            def expected(self, plural=False):
                return 'int (x3)'

            def try_convert(self, val):
                if type(val) is int:
                    return val * 3
                raise ParseInterrupt()

            def collect_errors(self, val):
                return None if type(val) is int else WrongTypeError(self.expected(), val)

            def into_data(self, val):
                return val // 3
        _X3['c'] = Times3()
    return _X3['c']


def expected_struct(pane, ty):
    return type_struct(build_type(pane, ty))


def check_program(pane, res, idx, prog):
    from pane.errors import ConvertError
    cell = {'idx': idx, 'prog': prog}
    forms = '/'.join([prog[0]['kind']] + [l['form'] for l in prog[1:]])
    acts = '/'.join(l['action'] for l in prog[1:]) or '-'
    optn = '/'.join(str(OPTIONS[l['opt']][0]) if OPTIONS[l['opt']] else '-' for l in prog[1:]) or '-'
    desc = f"program forms={forms} actions={acts} options={optn} roottype={TYPES[prog[0]['type']]}"
    sig = {'forms': forms if len(prog) <= 2 else '/'.join(forms.split('/')[1:]), 'rtype': TYPES[prog[0]['type']][0] if not isinstance(TYPES[prog[0]['type']], str) else 'int'}
    res['states'] += 1
    try:
        classes, models = realise(pane, prog)
    except Refused as r:
        li, exc, m, why = r.args
        res['evals'] += 1
        res['validated'] += 1
        res['outcomes']['refused'] += 1
        if exc is None:
            core.add_violation(res, {'kind': 'ill_formed_program_accepted', 'why': why, **sig},
                               f"{desc}: level {li} should be refused ({why}) but the class was created", cell, len(prog))
        elif why is None:
            core.add_violation(res, {'kind': 'well_formed_program_refused', 'exc': type(exc).__name__, 'action': prog[li].get('action'), **sig},
                               f"{desc}: creating level {li} raised {type(exc).__name__}: {core.sstr(exc, 120)}", cell, len(prog))
        elif not isinstance(exc, TypeError):
            core.add_violation(res, {'kind': 'refused_with_wrong_exception', 'exc': type(exc).__name__, **sig},
                               f"{desc}: level {li} refused with {type(exc).__name__} instead of TypeError", cell, len(prog))
        return
    if len(prog) >= 2:
        res['nontrivial'].add(f"{forms}|{acts}|{optn}|{sig['rtype']}")
    leaf, lm = classes[-1], models[-1]
    cost = len(prog)
    # ---- parameters
    got_params = [p.__name__ for p in getattr(leaf, '__parameters__', ())]
    res['evals'] += 1
    if got_params != lm.params:
        core.add_violation(res, {'kind': 'type_parameters', **sig},
                           f"{desc}: __parameters__ are {got_params}, expected {lm.params}", cell, cost)
        return
    # ---- subscription of the leaf with concrete arguments
    targets = [(leaf, lm, {})]
    if lm.params:
        args = [CONCRETE[(i + 1) % 3] for i in range(len(lm.params))]
        try:
            sub = leaf[tuple(build_type(pane, a) for a in args)]
            grammar.pin(sub)
        except Exception as e:  # noqa
            core.add_violation(res, {'kind': 'subscription_fails', 'exc': type(e).__name__, **sig},
                               f"{desc}: subscripting the leaf with {args} raised {type(e).__name__}: {core.sstr(e, 100)}", cell, cost)
            return
        sm = lm.copy()
        b = dict(zip(lm.params, args))
        for f in sm.fields:
            f['type'] = subst(f['type'], b)
        sm.params = []
        targets.append((sub, sm, b))
    for cls, m, b in targets:
        which = 'leaf' if not b else f"leaf[{', '.join(b.values())}]"
        eff = m.effective()
        # ---- signature
        try:
            params = list(inspect.signature(cls).parameters.values())
        except Exception as e:  # noqa
            core.add_violation(res, {'kind': 'signature_raises', **sig}, f"{desc} ({which}): inspect.signature raised {e!r}", cell, cost)
            continue
        res['evals'] += 1
        res['validated'] += 1
        res['transitions'] += 1
        got_sig = [(p.name, 'kw' if p.kind is p.KEYWORD_ONLY else 'pos', p.default if p.default is not p.empty else '<req>') for p in params]
        want_sig = [(f['name'], 'kw' if f['kw_only'] else 'pos', f['default'] if f['has_default'] else '<req>') for f in eff]
        if got_sig != want_sig:
            core.add_violation(res, {'kind': 'signature_order_or_defaults', **sig},
                               f"{desc} ({which}): signature {got_sig}, expected {want_sig}", cell, cost)
            continue
        bad = None
        for p, f in zip(params, eff):
            if type_struct(p.annotation) != expected_struct(pane, f['type']):
                bad = f"field {f['name']}: annotation {p.annotation!r}, expected {build_type(pane, f['type'])!r}"
                break
        if bad:
            core.add_violation(res, {'kind': 'substituted_type', 'which': 'leaf' if not b else 'subscripted', **sig},
                               f"{desc} ({which}): {bad}", cell, cost)
            continue
        # ---- conversion enforces the substituted types (by name)
        in_names = {f['name']: (style_name(f['name'], m.opts['rename']) if m.opts['rename'] else f['name']) for f in eff}
        good = {in_names[f['name']]: sample(f['type'], True) for f in eff}
        mult = 3 if m.opts['custom'] else 1

        def expect_val(f, raw):
            # handler effect: int-typed positions are multiplied by three when the class custom= is in force
            return raw
        try:
            x = pane.from_data(values.fresh(good), cls)
        except Exception as e:  # noqa
            core.add_violation(res, {'kind': 'right_values_refused', 'exc': type(e).__name__, **sig},
                               f"{desc} ({which}): from_data({good!r}) raised {type(e).__name__}: {core.sstr(e, 140)}", cell, cost)
            continue
        res['transitions'] += 1
        # unions that mention the variable: the member order of the declaration decides (Union[T, float][int] keeps 3 an int,
        # Union[float, T][int] makes it 3.0)
        for f in eff:
            if not isinstance(f['type'], str) and f['type'][0] in ('unionf', 'funion') and isinstance(f['type'][1], str) and not m.opts['custom']:
                raw = sample(f['type'], True)
                want_v = float(raw) if (f['type'][0] == 'funion' and type(raw) is int) else raw
                got_v = getattr(x, f['name'])
                if not values.typed_eq(got_v, want_v):
                    core.add_violation(res, {'kind': 'union_member_order_after_substitution', 'shape': f['type'][0], **sig},
                                       f"{desc} ({which}): field {f['name']}: {build_type(pane, f['type'])!r} converted {raw!r} to {got_v!r} "
                                       f"({type(got_v).__name__}), expected {want_v!r} ({type(want_v).__name__})", cell, cost)
        # repr order
        rp = repr(x)
        order = [rp.find(f"{f['name']}=") for f in eff]
        if -1 in order or order != sorted(order):
            core.add_violation(res, {'kind': 'repr_order', **sig}, f"{desc} ({which}): repr {rp!r} does not list {[f['name'] for f in eff]} in order", cell, cost)
        # handler inheritance (int-typed plain fields)
        for f in eff:
            if f['type'] == 'int' and not f.get('conv'):      # (a field's own converter= outranks the class's custom=)
                v = getattr(x, f['name'])
                if v != 3 * mult:
                    core.add_violation(res, {'kind': 'custom_handlers_inheritance', 'expected_custom': bool(m.opts['custom']), **sig},
                                       f"{desc} ({which}): int field {f['name']} converted 3 -> {v}; class custom= "
                                       f"{'is' if m.opts['custom'] else 'is not'} in force at this level (expected {3 * mult})", cell, cost)
                break
        for f in eff:
            w = sample(f['type'], False)
            if w is None or f.get('conv'):      # (a field's own converter decides what it takes)
                continue
            d = dict(good)
            d[in_names[f['name']]] = w
            try:
                pane.from_data(values.fresh(d), cls)
                core.add_violation(res, {'kind': 'wrong_value_accepted', 'ftype': f['type'][0] if not isinstance(f['type'], str) else f['type'], **sig},
                                   f"{desc} ({which}): field {f['name']}: {build_type(pane, f['type'])!r} accepted the wrong-kind value {w!r}", cell, cost)
            except ConvertError:
                pass
            except Exception as e:  # noqa
                core.add_violation(res, {'kind': 'wrong_value_raises', 'exc': type(e).__name__, **sig},
                                   f"{desc} ({which}): field {f['name']} on {w!r} raised {type(e).__name__}", cell, cost)
            res['transitions'] += 1
        # ---- positional binding / tuple layout inheritance
        pos = [f for f in eff if not f['kw_only']]
        seq = [sample(f['type'], True) for f in pos]
        try:
            y = pane.from_data(values.fresh(seq), cls)
            took = True
        except ConvertError:
            took = False
        if took != ('tuple' in m.opts['in_format']):
            core.add_violation(res, {'kind': 'in_format_inheritance', **sig},
                               f"{desc} ({which}): sequence data {'accepted' if took else 'rejected'} but effective in_format is {m.opts['in_format']}", cell, cost)
        elif took:
            for f in pos:
                if not values.typed_eq(getattr(y, f['name']), getattr(x, f['name'])):
                    core.add_violation(res, {'kind': 'positional_binding_order', **sig},
                                       f"{desc} ({which}): positional data bound {f['name']}={getattr(y, f['name'])!r}, by name it is {getattr(x, f['name'])!r}", cell, cost)
                    break
        # ---- allow_extra inheritance
        try:
            pane.from_data(dict(values.fresh(good), zz_unknown=1), cls)
            extra_ok = True
        except ConvertError:
            extra_ok = False
        if extra_ok != m.opts['allow_extra']:
            core.add_violation(res, {'kind': 'allow_extra_inheritance', **sig},
                               f"{desc} ({which}): unknown key {'accepted' if extra_ok else 'rejected'}, effective allow_extra={m.opts['allow_extra']}", cell, cost)
        # ---- rename inheritance (output names)
        try:
            out = pane.into_data(x, cls)
            want_keys = [in_names[f['name']] for f in eff]
            if list(out) != want_keys:
                core.add_violation(res, {'kind': 'rename_inheritance', **sig}, f"{desc} ({which}): output keys {list(out)}, expected {want_keys}", cell, cost)
        except Exception as e:  # noqa
            core.add_violation(res, {'kind': 'into_data_raises', 'exc': type(e).__name__, **sig}, f"{desc} ({which}): into_data raised {e!r}", cell, cost)
        # ---- frozen inheritance
        try:
            setattr(x, eff[0]['name'], getattr(x, eff[0]['name']))
            fr = False
        except dataclasses.FrozenInstanceError:
            fr = True
        except Exception:  # noqa
            fr = None
        if fr != m.opts['frozen']:
            core.add_violation(res, {'kind': 'frozen_inheritance', **sig}, f"{desc} ({which}): frozen behaviour {fr}, effective frozen={m.opts['frozen']}", cell, cost)
        res['outcomes']['program_checked'] += 1
    # ---- second opinion on parameter order: mirror dataclasses hierarchy (non-generic view)
    mirror_order(pane, res, prog, models, desc, sig, cell)


def mirror_order(pane, res, prog, models, desc, sig, cell):
    """Rebuild the hierarchy with the standard library and compare parameter names / kinds of the leaf."""
    prev = None
    try:
        for li, (lvl, m) in enumerate(zip(prog, models)):
            pm = models[li - 1] if li else None
            ns: t.Dict[str, t.Any] = {'__annotations__': {}}
            inherited = {f['name'] for f in pm.fields} if pm else set()
            for f in m.fields:
                changed = pm is None or f['name'] not in inherited or next(g for g in pm.fields if g['name'] == f['name']) != _subst_back(f, pm, m)
                if f['name'] in inherited and not _redeclared(lvl, f, pm):
                    continue
                ns['__annotations__'][f['name']] = int
                kwf = {'kw_only': True} if f['kw_only'] else {}
                if f['has_default']:
                    ns[f['name']] = dataclasses.field(default=f['default'], **kwf)
                elif kwf:
                    ns[f['name']] = dataclasses.field(**kwf)
            prev = dataclasses.dataclass(type(f"M{li}", (prev,) if prev else (), ns))
        got = [(p.name, 'kw' if p.kind is p.KEYWORD_ONLY else 'pos') for p in inspect.signature(prev).parameters.values()]
        want = [(f['name'], 'kw' if f['kw_only'] else 'pos') for f in models[-1].effective()]
        res['transitions'] += 1
        if got != want:
            res['extra']['model_vs_stdlib_order_disagreements'] = res['extra'].get('model_vs_stdlib_order_disagreements', 0) + 1
    except TypeError:
        pass


def _redeclared(lvl, f, pm):
    return lvl.get('action', '').startswith('redeclare') and f['name'] == pm.fields[0]['name']


def _subst_back(f, pm, m):
    return f


# ------------------------------------------------------------------ two-base shapes (mixins)

def check_mixins(pane, res):
    """Diamond-free two-base shapes: the effective fields are those of the bases in MRO order."""
    T, U = _TV['T'], _TV['U']
    A = new_class('MixA', (pane.PaneBase, t.Generic[T]), {'__annotations__': {'x': T}, '__module__': 'mc.generated'})
    B = new_class('MixB', (pane.PaneBase, t.Generic[T]), {'__annotations__': {'y': T}, '__module__': 'mc.generated'})
    B2 = new_class('MixB2', (pane.PaneBase, t.Generic[U]), {'__annotations__': {'y': U}, '__module__': 'mc.generated'})
    N = type('MixN', (pane.PaneBase,), {'__annotations__': {'n': str}, '__module__': 'mc.generated'})
    cases = [
        ('C(A[int], B[T]) same variable name in both bases', lambda: new_class('C1', (A[int], B[T]), {'__annotations__': {}}), ['T'], {'x': int, 'y': T}),
        ('C(A[int], B2[U])', lambda: new_class('C2', (A[int], B2[U]), {'__annotations__': {}}), ['U'], {'x': int, 'y': U}),
        ('C(A[int], B[str])', lambda: new_class('C3', (A[int], B[str]), {'__annotations__': {}}), [], {'x': int, 'y': str}),
        ('C(A[T], B[T])', lambda: new_class('C4', (A[T], B[T]), {'__annotations__': {}}), ['T'], {'x': T, 'y': T}),
        ('C(A[T], N)', lambda: new_class('C5', (A[T], N), {'__annotations__': {}}), ['T'], {'x': T, 'n': str}),
        ('C(A[T], B2[U])', lambda: new_class('C6', (A[T], B2[U]), {'__annotations__': {}}), ['T', 'U'], {'x': T, 'y': U}),
    ]
    # diamonds: the effective field is the one of the most derived declaration in MRO order
    Base = type('DBase', (pane.PaneBase,), {'__annotations__': {'a': int, 'b': int}, 'a': 1, 'b': 2, '__module__': 'mc.generated'})
    Left = type('DLeft', (Base,), {'__annotations__': {'a': str, 'l': int}, 'a': 'left', 'l': 3, '__module__': 'mc.generated'})
    Right = type('DRight', (Base,), {'__annotations__': {'r': int}, 'r': 4, '__module__': 'mc.generated'})
    Right2 = type('DRight2', (Base,), {'__annotations__': {'b': float, 'r': int}, 'b': 2.5, 'r': 4, '__module__': 'mc.generated'})
    for label, bases, want in [
        ('D(Right, Left): Left re-declares a', (Right, Left), "(a: str = 'left', b: int = 2, l: int = 3, r: int = 4, d: int = 5) -> None"),
        ('D(Left, Right)', (Left, Right), "(a: str = 'left', b: int = 2, r: int = 4, l: int = 3, d: int = 5) -> None"),
        ('D(Right2, Left): each side re-declares one field', (Right2, Left), "(a: str = 'left', b: float = 2.5, l: int = 3, r: int = 4, d: int = 5) -> None"),
        ('D(Left, Right2)', (Left, Right2), "(a: str = 'left', b: float = 2.5, r: int = 4, l: int = 3, d: int = 5) -> None"),
    ]:
        res['states'] += 1
        res['evals'] += 1
        res['validated'] += 1
        res['nontrivial'].add(f"diamond|{label}")
        try:
            D = type('D', bases, {'__annotations__': {'d': int}, 'd': 5, '__module__': 'mc.generated'})
            got = str(inspect.signature(D))
            # (no standard-library mirror here: dataclasses copies every inherited field into each base, so in a diamond the stale
            #  copy held by the base that did NOT re-declare the field wins - the statement asks for MRO order with in-place override)
            inst = D.from_data({})
            vals = (inst.a, inst.b)
        except Exception as e:  # noqa
            core.add_violation(res, {'kind': 'diamond_creation', 'case': label}, f"diamond {label}: raised {type(e).__name__}: {core.sstr(e, 100)}", {'mixin': label}, 3)
            continue
        if got != want or vals != ('left', 2 if 'Right2' not in label else 2.5):
            core.add_violation(res, {'kind': 'diamond_fields', 'case': label},
                               f"diamond {label}: signature {got} with defaults {vals}; expected {want}", {'mixin': label}, 3)
    # a plain (non-pane) mixin listed BEFORE the pane base: options still come from the pane base
    class Describe:
        def describe(self):
            return type(self).__name__
    OBase = type('OBase', (pane.PaneBase,), {'__annotations__': {'fld_a': int, 'fld_b': int}, 'fld_b': 2, '__module__': 'mc.generated'},
                 frozen=False, out_format='tuple', in_format=('tuple', 'struct'), allow_extra=True, rename='camel')
    for label, bases in (('Mixed(Describe, OBase)', (Describe, OBase)), ('Mixed(OBase, Describe)', (OBase, Describe))):
        res['states'] += 1
        res['evals'] += 1
        res['validated'] += 1
        res['nontrivial'].add(f"plain_mixin|{label}")
        try:
            M = type('Mixed', bases, {'__annotations__': {'fld_c': int}, 'fld_c': 3, '__module__': 'mc.generated'})
            x = M.from_data({'fldA': 1, 'zz_unknown': 0})
            seq = M.from_data([1, 5])
            setattr(x, 'fld_a', 9)
            out = pane.into_data(seq, M)
            got = (x.fld_a, seq.fld_b, out)
            want = (9, 5, (1, 5, 3))
        except Exception as e:  # noqa
            got, want = f"{type(e).__name__}: {core.sstr(e, 100)}", 'options of OBase (frozen=False, tuple layouts, allow_extra, rename=camel) inherited'
        if got != want:
            core.add_violation(res, {'kind': 'options_through_plain_mixin', 'case': label},
                               f"{label}: options of the pane base are not in force in the subclass: got {got!r}, expected {want!r}", {'mixin': label}, 3)
    # ONE field() object written into the bodies of several classes: each class reads it, none may leave its own type or
    # keyword-only placement behind in it for the next class (in either order of class creation)
    def _mk_kw(shared):
        return type('ShKw', (pane.PaneBase,), {'__annotations__': {'x': int, '_': pane.KW_ONLY, 'k': int}, 'x': 0, 'k': shared, '__module__': 'mc.generated'},
                    in_format=('tuple', 'struct'))

    def _mk_plain(shared):
        return type('ShPlain', (pane.PaneBase,), {'__annotations__': {'x': int, 'k': int}, 'x': 0, 'k': shared, '__module__': 'mc.generated'},
                    in_format=('tuple', 'struct'))

    def _mk_str(shared):
        return type('ShStr', (pane.PaneBase,), {'__annotations__': {'s': str}, 's': shared, '__module__': 'mc.generated'})
    makers = {'kw_only user': (_mk_kw, "(x: int = 0, *, k: int = 7) -> None"), 'plain user': (_mk_plain, "(x: int = 0, k: int = 7) -> None"),
              'str user': (_mk_str, "(s: str = 7) -> None")}
    for order in itertools.permutations(makers, 3):
        shared = pane.field(default=7, aliases=('n',))
        res['states'] += 1
        res['evals'] += 1
        res['validated'] += 1
        res['nontrivial'].add(f"shared_field|{'>'.join(order)}")
        problem = None
        try:
            built = {n: makers[n][0](shared) for n in order}
            for n in order:
                got = str(inspect.signature(built[n]))
                if got != makers[n][1]:
                    problem = f"{n}: signature {got}, expected {makers[n][1]}"
                    break
                sub_cls = type('ShSub', (built[n],), {'__annotations__': {'z': int}, 'z': 3, '__module__': 'mc.generated'})
                want_sub = makers[n][1].replace(') -> None', ', z: int = 3) -> None') if n != 'kw_only user' else "(x: int = 0, z: int = 3, *, k: int = 7) -> None"
                if str(inspect.signature(sub_cls)) != want_sub:
                    problem = f"subclass of the {n}: signature {inspect.signature(sub_cls)}, expected {want_sub}"
                    break
            if problem is None:
                p = built['plain user'].from_data([1, 2])
                if (p.x, p.k) != (1, 2):
                    problem = f"plain user: from_data([1, 2]) -> {p!r}"
        except Exception as e:  # noqa
            problem = problem or f"{type(e).__name__}: {core.sstr(e, 100)}"
        if problem:
            core.add_violation(res, {'kind': 'shared_field_object', 'first': order[0]},
                               f"one field(default=7, aliases=('n',)) object used in three class bodies created in the order {list(order)}: {problem}",
                               {'mixin': 'shared_field:' + '>'.join(order)}, 4)
    # frozen and a validating hook, both INHERITED: the option stays in force whatever constructions were rejected before
    def _fpost(self):
        if self.x == 13:
            raise ValueError('unlucky')
    FBase = type('FBase', (pane.PaneBase,), {'__annotations__': {'x': int}, '__post_init__': _fpost, '__module__': 'mc.generated'})
    FChild = type('FChild', (FBase,), {'__annotations__': {'y': int}, 'y': 2, '__module__': 'mc.generated'})
    rejected = [('FChild(13)', lambda: FChild(13)), ("from_data({'x': 13}, FChild)", lambda: pane.from_data({'x': 13}, FChild)),
                ("from_data({'x': 13}, Union[FChild, str])", lambda: pane.from_data({'x': 13}, t.Union[FChild, str])),
                ('FBase(13)', lambda: FBase(13))]
    for k in range(len(rejected) + 1):
        for seq in itertools.permutations(rejected, k):
            res['states'] += 1
            res['evals'] += 1
            res['validated'] += 1
            label = ' ; '.join(n for n, _ in seq) or '(nothing)'
            res['nontrivial'].add(f"inherited_frozen|{label}")
            inst, binst = FChild(1), FBase(1)
            problem = None
            for n, f in seq:
                try:
                    f()
                    problem = f"{n} was not rejected by the inherited hook"
                except Exception:  # noqa
                    pass
            for who, o in (('FChild', inst), ('FBase', binst)):
                try:
                    o.x = 100
                    problem = problem or f"after the rejected constructions [{label}] an instance of {who} (frozen by inheritance) accepted `o.x = 100` (now {o!r})"
                except dataclasses.FrozenInstanceError:
                    pass
                except Exception as e:  # noqa
                    problem = problem or f"assignment raised {type(e).__name__}"
            if problem:
                core.add_violation(res, {'kind': 'inherited_frozen_lost', 'n_rejected': len(seq)}, problem, {'mixin': 'inherited_frozen:' + label}, 3 + len(seq))
    # a base with a field it initialises itself (init=False), a subclass appending a field: positional data follows the constructor
    NBase = type('NBase', (pane.PaneBase,), {'__annotations__': {'x': int, 'y': t.List[int]},
                                             'y': pane.field(init=False, exclude=True, compare=False, repr=False),
                                             '__post_init__': lambda self: object.__setattr__(self, 'y', []), '__module__': 'mc.generated'},
                 in_format=('tuple', 'struct'))
    NChild = type('NChild', (NBase,), {'__annotations__': {'z': float}, '__module__': 'mc.generated'})
    res['states'] += 1
    res['evals'] += 1
    res['validated'] += 1
    res['nontrivial'].add('noinit_base')
    try:
        got = (str(inspect.signature(NChild)), repr(NChild.from_data([1, 3.5])), repr(NChild.from_data({'x': 1, 'z': 3.5})))
    except Exception as e:  # noqa
        got = f"{type(e).__name__}: {core.sstr(e, 100)}"
    want = ('(x: int, z: float) -> None', 'NChild(x=1, z=3.5)', 'NChild(x=1, z=3.5)')
    if got != want:
        core.add_violation(res, {'kind': 'noinit_base_positional'}, f"init=False field in the base, field appended by the subclass: got {got!r}, expected {want!r}",
                           {'mixin': 'noinit_base'}, 3)
    for label, mk, params, fields in cases:
        res['states'] += 1
        res['evals'] += 1
        res['validated'] += 1
        res['nontrivial'].add(f"mixin|{label}")
        cell = {'mixin': label}
        try:
            C = mk()
            sigp = inspect.signature(C).parameters
            got = {n: p.annotation for n, p in sigp.items()}
            gp = [p.__name__ for p in getattr(C, '__parameters__', ())]
        except Exception as e:  # noqa
            core.add_violation(res, {'kind': 'mixin_creation', 'case': label}, f"two-base shape {label}: raised {type(e).__name__}: {core.sstr(e, 100)}", cell, 3)
            continue
        if set(got) != set(fields) or any(type_struct(got[n]) != type_struct(fields[n]) for n in fields) or sorted(gp) != sorted(params):
            core.add_violation(res, {'kind': 'mixin_fields', 'case': label},
                               f"two-base shape {label}: fields {got} with parameters {gp}; expected {fields} with parameters {params}", cell, 3)


_MIRRORS: t.Dict[str, t.Any] = {}


def _mirror(cls):
    """Standard-library dataclass twin of one of the diamond fixture classes."""
    name = cls.__name__
    if name not in _MIRRORS:
        bases = tuple(_mirror(b) for b in cls.__bases__ if b.__name__.startswith('D'))
        ns = {'__annotations__': dict(cls.__dict__.get('__annotations__', {}))}
        for k in ns['__annotations__']:
            if k in cls.__dict__:
                ns[k] = cls.__dict__[k]
            else:
                f = next(f for f in cls.__pane_info__.fields if f.name == k)
                ns[k] = f.default
        _MIRRORS[name] = dataclasses.dataclass(type(name, bases, ns))
    return _MIRRORS[name]


def plan(tier, seed):
    return [{'i': i, 'n': 48} for i in range(48)] + [{'mixins': True}]


def run_shard(shard, tier):
    pane = core.import_pane()
    warnings.simplefilter('ignore')
    res = core.new_result()
    if shard.get('mixins'):
        check_mixins(pane, res)
        return res
    from pane.convert import make_converter
    n = 0
    for idx, prog in programs(tier):
        if idx % shard['n'] != shard['i']:
            continue
        try:
            check_program(pane, res, idx, prog)
        except Exception as e:  # noqa
            import traceback
            tb = traceback.extract_tb(e.__traceback__)[-1]
            core.add_violation(res, {'kind': 'oracle_exception', 'exc': type(e).__name__, 'where': tb.lineno},
                               f"program {idx} {prog} raised {type(e).__name__}: {core.sstr(e)} (line {tb.lineno})", {'idx': idx, 'prog': prog}, 9)
        n += 1
        if n % 200 == 0:
            make_converter.cache.clear()
            core.clear_subscription_memo()
    if shard['i'] == 0:
        res['samples'].append({'program': [{'kind': 'generic2', 'type': 2}, {'form': 'partial_redeclare', 'action': 'add_default', 'ftype': 0, 'opt': 2}],
                               'meaning': "class L0(PaneBase, Generic[T,U]): fld_a: List[T]; fld_b: U / class L1(L0[int, V], Generic[V], rename='camel'): fld_c: int = 7 / L1[str]"})
    return res


def replay(cell):
    pane = core.import_pane()
    warnings.simplefilter('ignore')
    res = core.new_result()
    if cell.get('mixin'):
        check_mixins(pane, res)
        out = [v for lst in res['violations'].values() for v in lst]
        return [v for v in out if v['cell'] == cell] or out
    check_program(pane, res, cell['idx'], cell['prog'])
    return [v for lst in res['violations'].values() for v in lst]
