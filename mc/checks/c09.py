"""
C09 - conversion never mutates its input (from_data, convert, into_data, dataclass construction; both verdicts).
"""
from __future__ import annotations

import collections
import types
import typing as t

from mc import core, e1, grammar, values

ID = 'C09'
META = {
    'rule': "cells = (extended grammar incl. all three tagged layouts, aliases, duplicates, extras) x spellings x (members + "
            "single deviations + POOL, every container a fresh mutable list/dict, plus defaultdict(int)/inserting-mapping "
            "spellings of every mapping member); a deep snapshot (types, lengths, identity of nested containers, values) taken "
            "before from_data / convert / Cls.from_data / Cls(*args, **kw) / into_data(result) must equal the one taken after, "
            "for both verdicts; differential oracle: the same datum spelled with tuple / MappingProxyType containers gives the "
            "same verdict and an equal result. Non-trivial: datum contains at least one mutable container; key = (root, entry, verdict, value shape).",
    'assumptions': ["snapshots observe list/tuple/dict/mappingproxy/bytearray structure and element identity; atoms are compared by typed value"],
    'bounds': {'quick': 'extended grammar depth<=2(+3 reduced), 1 deviation', 'thorough': 'thorough grammar'},
}

plan = e1.plan


class InsertingDict(dict):
    """A mapping whose failed lookups insert the key (like collections.defaultdict)."""
    def __missing__(self, key):
        self[key] = None
        return None


class VivMapping(values.BareMapping):
    """The same for a mapping that is NOT a dict: indexing an absent key creates the entry (an auto-vivifying tree); `get` and
    `in` do not."""
    __slots__ = ()

    def __getitem__(self, k):
        if k not in self._d:
            self._d[k] = None
        return self._d[k]

    def get(self, k, default=None):
        return self._d.get(k, default)

    def __contains__(self, k):
        return k in self._d

    def __repr__(self):
        return f"VivMapping({self._d!r})"


def snap(v):
    ty = type(v)
    if ty in (list, tuple) or isinstance(v, list):
        return (ty.__name__, id(v), tuple(snap(x) for x in v))
    if isinstance(v, values.MAPS):
        return (ty.__name__, id(v), tuple((snap(k), snap(x)) for k, x in v.items()))
    if ty is bytearray:
        return ('bytearray', id(v), bytes(v))
    if isinstance(v, (set, frozenset, collections.deque)):
        return (ty.__name__, id(v), values.ckey(v))
    if hasattr(ty, '__pane_info__'):
        return (ty.__name__, id(v), tuple((f.name, snap(getattr(v, f.name, None))) for f in ty.__pane_info__.fields),
                tuple(sorted(getattr(v, '__pane_set__', ()))))
    return ('atom', values.ckey(v))


def has_mutable(v):
    if isinstance(v, (list, dict, bytearray)):
        return True
    if isinstance(v, tuple):
        return any(has_mutable(x) for x in v)
    if isinstance(v, (types.MappingProxyType, values.BareMapping)):
        return any(has_mutable(x) for x in v.values())
    return False


def immutable(v):
    if isinstance(v, (list, tuple)):
        return tuple(immutable(x) for x in v)
    if isinstance(v, values.MAPS):
        return types.MappingProxyType({k: immutable(x) for k, x in v.items()})
    return v


_VC: t.Dict[str, t.List[t.Any]] = {}


def values_c09(ast, tier):
    key = tier + repr(ast)
    r = _VC.get(key)
    if r is None:
        base = e1.values_for(ast, tier)
        extra = []
        for v in base:
            if type(v) is dict and len(extra) < 40:
                extra.append(collections.defaultdict(int, v))
                extra.append(InsertingDict(v))
                extra.append(VivMapping(v))
            elif type(v) is list and v and type(v[0]) is dict and len(extra) < 40:
                extra.append([InsertingDict(v[0])] + v[1:])
        r = base + extra
        if len(_VC) > 3000:
            _VC.clear()
        _VC[key] = r
    return r


def fresh_c09(v):
    if type(v) is InsertingDict:
        return InsertingDict(values.fresh(dict(v)))
    if type(v) is VivMapping:
        return VivMapping(values.fresh(dict(v)))
    if type(v) is collections.defaultdict:
        return collections.defaultdict(v.default_factory, values.fresh(dict(v)))
    if type(v) is list:
        return [fresh_c09(x) for x in v]
    return values.fresh(v)


def call(fn):
    from pane.errors import ConvertError
    try:
        return 'ok', fn()
    except ConvertError as e:
        return 'rej', e
    except Exception as e:  # noqa
        return 'raw:' + type(e).__name__, e


def judge(ctx, ast, sp, T, vi, v):
    pane = ctx.pane
    res = ctx.res
    root = e1.root_of(ast)
    mutable = has_mutable(v)
    entries: t.List[t.Tuple[str, t.Callable[[t.Any], t.Any]]] = [
        ('from_data', lambda d: pane.from_data(d, T)), ('convert', lambda d: pane.convert(d, T))]
    if hasattr(T, '__pane_info__'):
        entries.append(('Cls.from_data', lambda d: T.from_data(d)))
        if isinstance(v, dict) and all(isinstance(k, str) and k.isidentifier() for k in v):
            entries.append(('Cls(**kw)', lambda d: T(**d)))
            if set(v) <= {f.name for f in T.__pane_info__.fields}:
                # the unchecked constructor takes a (possibly partial) mapping of field values: it must not write into it
                entries.append(('Cls.from_dict_unchecked', lambda d: T.from_dict_unchecked(d)))
        elif isinstance(v, (list, tuple)):
            entries.append(('Cls(*args)', lambda d: T(*d)))
    if values.kind(v) in ('map', 'seq'):
        # serialising never writes into what it is given either (a container handed over as the value of a container type)
        entries.append(('into_data', lambda d: pane.into_data(d, T)))
    first = None
    shape = values.kind(v)
    for name, fn in entries:
        d = fresh_c09(v)
        before = snap(d)
        out = call(lambda: fn(d))
        after = snap(d)
        res['evals'] += 1
        res['transitions'] += 1
        res['validated'] += 1
        res['outcomes'][f"{name}/{out[0].split(':')[0]}"] += 1
        if mutable:
            res['nontrivial'].add(f"{root}|{name}|{out[0]}|{shape}|{type(v).__name__}")
        if first is None:
            first = out
        if before != after:
            core.add_violation(res, {'kind': 'input_mutated', 'entry': name, 'verdict': out[0].split(':')[0], 'root': root,
                                     'dtype': type(v).__name__, 'leaves': sorted(e1.leaves_of(ast))[:3]},
                               f"{name}({values.expr(v)[:120]}, {grammar.render(ast)}) [{out[0]}] changed its argument: "
                               f"{core.srepr(v, 100)} became {core.srepr(d, 100)}", e1.cell_desc(ast, sp, vi, v),
                               e1.size(ast) * 10 + e1.vsize(v))
    # into_data must not touch the typed value it serialises
    if first is not None and first[0] == 'ok':
        x = first[1]
        before = snap(x)
        out = call(lambda: pane.into_data(x, T))
        after = snap(x)
        res['transitions'] += 1
        res['evals'] += 1
        if before != after:
            core.add_violation(res, {'kind': 'typed_value_mutated', 'entry': 'into_data', 'root': root},
                               f"into_data({core.srepr(x, 100)}, {grammar.render(ast)}) changed the value it serialised",
                               e1.cell_desc(ast, sp, vi, v), e1.size(ast) * 10 + e1.vsize(v))
    # differential oracle: immutable spelling of the same datum
    lv = e1.leaves_of(ast)
    # (types with Any / bare-container positions pass elements through by identity, so hashability - and with it the
    #  verdict of a Set[Any] - legitimately depends on list-vs-tuple spelling: no differential there)
    identityish = any(x == 'any' or x.startswith('bare_') or x in ('sub_list', 'sub_dict', 'ndarray', 'ndarray_int', 'enum_tuple')
                      for x in lv)
    if sp == (0, 0) and mutable and type(v) in (list, dict, tuple) and first is not None and not first[0].startswith('raw') \
            and not identityish:
        iv = immutable(v)
        out2 = call(lambda: pane.from_data(iv, T))
        res['transitions'] += 1
        if out2[0] != first[0] or (first[0] == 'ok' and not values.typed_eq(first[1], out2[1])):
            core.add_violation(res, {'kind': 'immutable_spelling_differs', 'root': root, 'leaves': sorted(lv)[:3]},
                               f"from_data on {values.expr(v)[:100]} -> {first[0]} {core.srepr(first[1], 80)} but on the same datum "
                               f"spelled with tuple/mappingproxy -> {out2[0]} {core.srepr(out2[1], 80)} ({grammar.render(ast)})",
                               e1.cell_desc(ast, sp, vi, v), e1.size(ast) * 10 + e1.vsize(v))


def run_shard(shard, tier):
    return e1.run_shard(shard, tier, judge, value_fn=values_c09, expr_fn=grammar.expressions_ext)


def replay(cell):
    return e1.replay(cell, judge, value_fn=values_c09)
