"""
C07 - error trees localise failures compositionally.

Compositional oracle: the implementation itself, run on strictly smaller inputs (each element alone against its own
element type), says which children must exist and what each child must be; the reference field tables say which names
are missing / extra.  One level is checked per cell; deeper levels are the cells of the smaller types.
"""
from __future__ import annotations

import typing as t

from mc import core, e1, grammar, values, refmodel, classes_gen, trees

ID = 'C07'
META = {
    'rule': "cells = (grammar) x spellings x (members + single deviations + POOL); for every rejected cell the root of the error "
            "tree is compared with the tree predicted from the element-wise runs: product children keyed by exactly the "
            "positions/keys whose element is rejected alone, each child equal (typed, nan-safe) to the element's own tree, "
            "missing/extra from the reference field table, union nodes with one child per typing.get_args member in order, "
            "wrong outer kind -> a leaf whose actual is the value itself, conditional/delegate wrappers transparent, "
            "every leaf's actual equal to the sub-value at its path, and the tree unchanged by rendering it. "
            "Non-trivial: the rejected datum has the right outer kind (so the tree has structure); key = (root, tree shape).",
    'assumptions': ["for a Dict entry whose key and value both fail either tree is accepted (the statement does not say which)",
                    "cells whose naming is UNSPEC in the reference model are skipped"],
    'bounds': {'quick': 'grammar depth<=2(+3 reduced), 1 deviation', 'thorough': 'thorough grammar, 1 deviation on 5 members'},
}

def plan(tier, seed):
    return e1.plan(tier, seed) + [{'docs_stream': True}]


SEQS = ('list', 'tuplevar', 'set', 'frozenset', 'deque')
MAPS = ('dict', 'defaultdict', 'ordereddict', 'counter')


def alone(pane, Tc, x):
    """Error tree of converting x to Tc on its own; None if accepted."""
    from pane.errors import ConvertError
    try:
        pane.from_data(x, Tc)
        return None
    except ConvertError as e:
        return e.tree


def is_leaf(node):
    return type(node).__name__ in ('WrongTypeError', 'WrongLenError', 'ConditionFailedError')


def same_value(a, b):
    if a is b:
        return True
    try:
        return values.typed_eq(a, b) or bool(a == b)
    except Exception:
        return False


def expect_leaf(tree, v, what):
    if not is_leaf(tree):
        return f"{what}: expected a leaf node whose actual is the value itself, got {type(tree).__name__}"
    if not same_value(tree.actual, v):
        return f"{what}: leaf records actual={core.srepr(tree.actual, 60)} instead of the offending value {core.srepr(v, 60)}"
    return None


def expect_product(pane, tree, v, items, what, missing=None, extra=None, either=None):
    """items: list of (key, child_type, child_value). either: key -> [alternative (type, value)] for dict entries."""
    if type(tree).__name__ != 'ProductErrorNode':
        return f"{what}: expected a product node, got {type(tree).__name__}"
    want = {}
    for key, Tc, x in items:
        tr = alone(pane, Tc, x)
        if tr is not None:
            want.setdefault(key, []).append(tr)
    got = dict(tree.children)
    if set(map(_k, got)) != set(map(_k, want)):
        return (f"{what}: children keyed {sorted(map(str, got))} but the elements rejected on their own are "
                f"{sorted(map(str, want))}")
    for key, alts in want.items():
        child = got[key] if key in got else next(c for kk, c in got.items() if _k(kk) == _k(key))
        if type(child).__name__ == 'DuplicateKeyError':
            continue
        if not any(trees.node_eq(child, a) for a in alts):
            # a mapping ENTRY has two elements (key and value): when both are rejected on their own, a node that holds exactly
            # their two own trees (whatever it names them) localises the failure just as well as either of them alone
            sub = getattr(child, 'children', None)
            if len(alts) > 1 and type(child).__name__ == 'ProductErrorNode' and isinstance(sub, dict) and len(sub) == len(alts) \
                    and all(any(trees.node_eq(c2, a) for c2 in sub.values()) for a in alts):
                continue
            return (f"{what}: child {key!r} is {core.srepr(child, 140)} but the element alone reports "
                    f"{core.srepr(alts[0], 140)}")
    if missing is not None and set(tree.missing) != set(missing):
        return f"{what}: missing={sorted(map(str, tree.missing))}, expected {sorted(map(str, missing))}"
    if extra is not None and set(map(_k, tree.extra)) != set(map(_k, extra)):
        return f"{what}: extra={sorted(map(str, tree.extra))}, expected {sorted(map(str, extra))}"
    if not same_value(tree.actual, v):
        return f"{what}: product node records actual={core.srepr(tree.actual, 60)} instead of {core.srepr(v, 60)}"
    return None


def _k(key):
    return (type(key).__name__, str(key))


TAGGED = {'tag_int': ('internal', 'V1', 'V2', 'v1', 'v2'), 'tag_ext': ('external', 'V1', 'V2', 'v1', 'v2'),
          'tag_adj': ('adjacent', 'V1', 'V2', 'v1', 'v2'), 'tag_num': ('adjacent', 'I1', 'I2', 1, 2)}


def check_tagged(pane, leaf, v, tree):
    """A declared tag selects one variant: the error must be exactly that variant's own tree on the body (never the tag)."""
    layout, n1, n2, t1, t2 = TAGGED[leaf]
    if values.kind(v) != 'map':
        return expect_leaf(tree, v, 'non-mapping for a tagged union')
    try:
        if layout == 'internal':
            tag = v['x']
            body = {kk: x for kk, x in v.items() if kk != 'x'}
        elif layout == 'external':
            if len(v) != 1:
                return 'skip'
            (tag, body), = v.items()
        else:
            if set(v) != {'t', 'c'}:
                return 'skip'
            tag, body = v['t'], v['c']
    except (KeyError, TypeError):
        return 'skip'
    which = n1 if (type(tag) is type(t1) and tag == t1) else n2 if (type(tag) is type(t2) and tag == t2) else None
    if which is None:
        return 'skip'
    V = grammar._ext(which)
    tr = alone(pane, V, body)
    if tr is None:
        return f"tagged union rejected the value although variant {which} accepts the body {body!r}"
    if not trees.node_eq(tree, tr):
        return (f"tag {tag!r} selects {which}: the error must be that variant's own tree on the body "
                f"{core.srepr(tr, 110)}, got {core.srepr(tree, 110)}")
    return None


def check_root(pane, ast, T, v, tree):
    """Return a description of the first discrepancy, 'skip' if the cell is not judged, or None."""
    k = values.kind(v)
    if isinstance(ast, str) and ast in TAGGED:
        return check_tagged(pane, ast, v, tree)
    if isinstance(ast, str):
        if ast in grammar.DC_SPECS:
            return check_dc(pane, grammar.DC_SPECS[ast], T, v, tree)
        if ast in ('bare_list', 'bare_tuple', 'bare_set', 'bare_frozenset', 'bare_dict', 'sub_list', 'sub_dict', 'empty_tuple'):
            if (k == 'seq') == (ast not in ('bare_dict', 'sub_dict')) and ast != 'empty_tuple':
                # right outer kind, Any elements never fail: only a whole-value failure (unhashable) is possible
                return expect_leaf(tree, v, 'container of Any')
            return expect_leaf(tree, v, 'wrong outer kind')
        # scalars, enums, literals, paths, patterns, scalar subclasses: every leaf must show the value
        for path, leaf in trees.leaves(tree):
            if any(p[0] == 'k' for p in path):
                return f"scalar type produced a product node ({core.srepr(tree, 100)})"
            if not same_value(getattr(leaf, 'actual', v), v):
                return f"leaf records actual={core.srepr(leaf.actual, 60)} instead of {core.srepr(v, 60)}"
        return None
    c = ast[0]
    if c in SEQS:
        if k != 'seq':
            return expect_leaf(tree, v, 'wrong outer kind')
        Tc = t.get_args(T)[0]
        items = [(i, Tc, x) for i, x in enumerate(v)]
        if all(alone(pane, Tc, x) is None for x in v):
            return expect_leaf(tree, v, 'elements fine, container not constructible')
        return expect_product(pane, tree, v, items, c)
    if c == 'tuple':
        ts = list(T) if isinstance(T, tuple) else list(t.get_args(T))
        if k != 'seq' or len(v) != len(ts):
            return expect_leaf(tree, v, 'wrong outer kind/length')
        return expect_product(pane, tree, v, [(i, Tc, x) for i, (Tc, x) in enumerate(zip(ts, v))], c)
    if c == 'struct':
        if k != 'map':
            return expect_leaf(tree, v, 'wrong outer kind')
        decl = dict(T)
        items = [(kk, decl[kk], x) for kk, x in v.items() if _hashable(kk) and kk in decl]
        missing = [kk for kk in decl if kk not in v]
        extra = [kk for kk in v if not (_hashable(kk) and kk in decl)]
        return expect_product(pane, tree, v, items, c, missing, extra)
    if c in MAPS:
        if k != 'map':
            return expect_leaf(tree, v, 'wrong outer kind')
        args = t.get_args(T)
        Tk = args[0]
        Tv = int if c == 'counter' else args[1]
        items = []
        for kk, x in v.items():
            items.append((str(kk), Tk, kk))
            items.append((str(kk), Tv, x))
        if all(alone(pane, Tc, x) is None for _, Tc, x in items):
            return expect_leaf(tree, v, 'entries fine, mapping not constructible')
        if len(set(map(str, v.keys()))) != len(v):
            return 'skip'      # two keys with the same str(): the node cannot hold both
        return expect_product(pane, tree, v, items, c)
    if c in ('union', 'optional'):
        if t.get_origin(T) is not t.Union:
            return 'skip'       # typing collapsed the union to a single member (Union[int, int], Optional[None])
        members = t.get_args(T)
        if type(tree).__name__ != 'SumErrorNode':
            return f"union: expected a sum node, got {type(tree).__name__}"
        if len(tree.children) != len(members):
            return (f"union node has {len(tree.children)} children for {len(members)} declared members "
                    f"({[type(ch).__name__ for ch in tree.children]})")
        for i, (m, child) in enumerate(zip(members, tree.children)):
            tr = alone(pane, m, v)
            if tr is None:
                return f"union rejected the value although member {i} ({m!r}) accepts it alone"
            if not trees.node_eq(child, tr):
                return f"union child {i} is {core.srepr(child, 120)} but member {m!r} alone reports {core.srepr(tr, 120)}"
        return None
    if c == 'annot':
        inner = t.get_args(T)[0]
        tr = alone(pane, inner, v)
        if tr is not None:
            if not trees.node_eq(tree, tr):
                return f"condition wrapper is not transparent: {core.srepr(tree, 120)} vs inner type's own {core.srepr(tr, 120)}"
            return None
        if type(tree).__name__ != 'ConditionFailedError':
            return f"inner type accepts the value; expected a ConditionFailedError leaf, got {type(tree).__name__}"
        if not same_value(tree.actual, v):
            return f"condition leaf records actual={core.srepr(tree.actual, 60)} instead of {core.srepr(v, 60)}"
        if ast[2] == 'raises' and tree.cause is None and (isinstance(ast[1], str) or ast[1][0] != 'annot'):
            return "predicate raised but the leaf carries no cause"
        return None
    return 'skip'


def _hashable(x):
    try:
        hash(x)
        return True
    except TypeError:
        return False


def check_dc(pane, spec, T, v, tree):
    opts = spec.get('opts', {})
    in_format = opts.get('in_format', ['struct'])
    k = values.kind(v)
    fields = [f for f in classes_gen.effective_fields(spec) if f.get('init', True)]
    if k == 'seq':
        if 'tuple' not in in_format:
            return expect_leaf(tree, v, 'tuple layout disabled')
        lo, hi = classes_gen.positional_range(spec)
        if not (lo <= len(v) <= hi):
            if type(tree).__name__ != 'WrongLenError':
                return f"length {len(v)} outside [{lo},{hi}]: expected WrongLenError, got {type(tree).__name__}"
            if tuple(tree.expected_len) != (lo, hi) or tree.actual_len != len(v) or not same_value(tree.actual, v):
                return f"WrongLenError records {tree.expected_len}/{tree.actual_len}, expected ({lo},{hi})/{len(v)}"
            return None
        pos = [f for f in fields if not f['kw_only']]
        items = [(i, grammar.build(f['type']), x) for i, (f, x) in enumerate(zip(pos, v))]
        if all(alone(pane, Tc, x) is None for _, Tc, x in items):
            return expect_leaf(tree, v, 'fields fine, __post_init__ refused')
        return expect_product(pane, tree, v, items, 'dataclass/tuple')
    if k == 'map':
        if 'struct' not in in_format:
            return expect_leaf(tree, v, 'struct layout disabled')
        names = [(f, *classes_gen.input_names(f, opts)) for f in fields]
        items, extra, bound, dups = [], [], {}, []
        for key, x in v.items():
            hit = None
            for f, firm, soft in names:
                if _hashable(key) and key in firm:
                    hit = f
                    break
            if hit is None:
                if any(isinstance(key, str) and key in soft for f, firm, soft in names):
                    return 'skip'
                if not opts.get('allow_extra'):
                    extra.append(key)
                continue
            if hit['name'] in bound:
                dups.append(key)
                continue
            bound[hit['name']] = key
            items.append((key, grammar.build(hit['type']), x))
        missing = [f['name'] for f in fields if f['name'] not in bound and not classes_gen.has_default(f)]
        if not missing and not extra and not dups and all(alone(pane, Tc, x) is None for _, Tc, x in items):
            return expect_leaf(tree, v, 'fields fine, __post_init__ refused')
        r = expect_product(pane, tree, v, [(kk, Tc, x) for kk, Tc, x in items if alone(pane, Tc, x) is not None or True],
                           'dataclass/struct', missing, extra) if not dups else None
        if dups:
            if type(tree).__name__ != 'ProductErrorNode':
                return f"duplicate keys: expected a product node, got {type(tree).__name__}"
            for dk in dups:
                ch = tree.children.get(dk)
                if type(ch).__name__ != 'DuplicateKeyError':
                    return f"key {dk!r} names an already supplied field: expected a DuplicateKeyError child, got {type(ch).__name__}"
            if set(tree.missing) != set(missing) or set(map(_k, tree.extra)) != set(map(_k, extra)):
                return f"missing/extra {sorted(tree.missing)}/{sorted(map(str, tree.extra))}, expected {missing}/{extra}"
            return None
        return r
    return expect_leaf(tree, v, 'wrong outer kind')


def judge(ctx, ast, sp, T, vi, v):
    from pane.errors import ConvertError
    pane = ctx.pane
    res = ctx.res
    d = values.fresh(v)
    try:
        pane.from_data(d, T)
        res['outcomes']['accepted'] += 1
        return
    except ConvertError as e:
        err = e
    except Exception:  # noqa: C04's
        res['outcomes']['foreign'] += 1
        return
    tree = err.tree
    res['evals'] += 1
    res['transitions'] += 1
    root = e1.root_of(ast)
    cost = e1.size(ast) * 10 + e1.vsize(v)
    key0 = trees.tree_key(tree)
    problem = check_root(pane, ast, T, d, tree)
    if problem == 'skip':
        res['unspec']['not_judged'] += 1
        res['outcomes']['skipped'] += 1
        return
    res['validated'] += 1
    res['outcomes']['rejected'] += 1
    shp = trees.shape(tree)
    if '(' in shp:
        res['nontrivial'].add(f"{root}|{shp}")
    if problem:
        core.add_violation(res, {'kind': 'tree_mismatch', 'root': root, 'what': problem.split(':')[0][:40],
                                 'leaves': sorted(e1.leaves_of(ast))[:3]},
                           f"from_data({values.expr(v)[:100]}, {grammar.render(ast)}): {problem}",
                           e1.cell_desc(ast, sp, vi, v), cost)
        return
    # every leaf shows the sub-value found at its path (product keys only; sums do not move)
    for path, leaf in trees.leaves(tree):
        cands = [d]
        for tag, key in path:
            if tag != 'k':
                continue
            nxt = []
            for sub in cands:
                if isinstance(sub, (list, tuple)):
                    try:
                        nxt.append(sub[int(key)])
                    except (ValueError, IndexError, TypeError):
                        pass
                elif values.kind(sub) == 'map':
                    nxt += [x for kk, x in sub.items() if str(kk) == str(key)]
                    # a Dict key that failed conversion is reported under str(key) with the key itself as actual
                    nxt += [kk for kk in sub if str(kk) == str(key)]
            cands = nxt
        if not cands or not hasattr(leaf, 'actual') or type(leaf).__name__ == 'ProductErrorNode':
            continue
        if not any(same_value(leaf.actual, a) for a in cands) and not _inside(leaf.actual, cands):
            core.add_violation(res, {'kind': 'leaf_actual', 'root': root, 'leaf': type(leaf).__name__},
                               f"from_data({values.expr(v)[:100]}, {grammar.render(ast)}): leaf at path "
                               f"{[p[1] for p in path]} records actual={core.srepr(leaf.actual, 60)}, the sub-value there is "
                               f"{core.srepr(cands[0], 60)}", e1.cell_desc(ast, sp, vi, v), cost)
            break
    # rendering the error must not change the tree
    core.sstr(err, 10 ** 6)
    if trees.tree_key(err.tree) != key0:
        core.add_violation(res, {'kind': 'tree_changed_by_rendering', 'root': root},
                           f"from_data({values.expr(v)[:100]}, {grammar.render(ast)}): str(error) modified the error tree "
                           f"(children now {core.srepr(list(getattr(err.tree, 'children', {})), 80)})",
                           e1.cell_desc(ast, sp, vi, v), cost)


def _inside(actual, alts):
    """A leaf below a union / wrapper may show a deeper part of the sub-value (e.g. a tagged-union body)."""
    for a in alts:
        if isinstance(a, (list, tuple)) and any(same_value(actual, x) for x in a):
            return True
        if values.kind(a) == 'map' and (any(same_value(actual, x) for x in a.values()) or any(same_value(actual, x) for x in a)):
            return True
    return False


def expressions(tier):
    out = list(grammar.expressions(tier))
    for leaf in TAGGED:
        out.append(leaf)
        out += [['list', leaf], ['dict', 'str', leaf], ['optional', leaf], ['union', 'int', leaf], ['struct', ['k', leaf]], ['tuple', 'int', leaf]]
    return out


def run_shard(shard, tier):
    if shard.get('docs_stream'):
        from mc import docs_stream
        res = core.new_result()
        docs_stream.run(core.import_pane(), res, want_text=False)
        return res
    return e1.run_shard(shard, tier, judge, expr_fn=expressions)


def replay(cell):
    if cell.get('docs_stream'):
        from mc import docs_stream
        out = docs_stream.replay(core.import_pane(), want_text=False)
        return [v for v in out if v['cell'].get('docs') == cell.get('docs')] or out
    return e1.replay(cell, judge)
