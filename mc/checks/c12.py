"""
C12 - tagged unions dispatch on the tag alone; the three layouts are symmetric.
"""
from __future__ import annotations

import itertools
import typing as t
import warnings

from mc import core, grammar, values, trees

ID = 'C12'
META = {
    'rule': "tagged types = 7 tag sets (str, int, three variants, falsy tags 0 / '' / False-free) x 3 body relations (identical, nested, "
            "disjoint) x 3 variant kinds (pane dataclass, dict subclass with a class-attribute tag, scalar subclass) x 3 layouts; data = "
            "every variant's member / near-member bodies wrapped in the layout with every tag in {declared tags, undeclared, absent, None, "
            "1.5, [1], {'a': 1}, True, 0, ''}, external mappings with 0 and 2 keys, adjacent mappings with a missing / extra key, and every "
            "non-mapping of the pool. Oracle: declared tag -> the result is an instance of exactly that variant and equals the variant "
            "converted alone on the body, a body error is exactly that variant's own tree; anything else -> ConvertError whose text names "
            "the tag (tag name, tag key or the declared tag values); duplicate tag values -> TypeError at build; into_data writes the "
            "layout's shape and reads back to an equal value. Non-trivial: mapping datum; key = (layout, variant kind, body relation, tag case, verdict).",
    'assumptions': ["True against int tag 1 / 1.0 against 1 are UNSPEC (== but other type)",
                    "internal-layout serialisation of non-dataclass variants (tag is a class attribute, not data) is not judged"],
    'bounds': {'quick': '7 x 3 x 3 x 3 tagged types x ~150 data', 'thorough': 'same types, two-deviation bodies'},
}

TAGSETS = [('v1', 'v2'), ('v1', 'v2', 'v3'), (1, 2), (1, 2, 3), (0, 1), ('', 'a'), ('a', 1)]
BODYREL = ['identical', 'nested', 'disjoint']
KINDS = ['pane', 'dictsub', 'scalar']
LAYOUTS = [('internal', False), ('external', True), ('adjacent', ('t', 'c'))]
ODD_TAGS = ['zz', 99, None, 1.5, [1], {'a': 1}, True, 0, '', 'V1', 2.0]
ABSENT = object()


def plan(tier, seed):
    return [{'ts': i, 'br': j} for i in range(len(TAGSETS)) for j in range(len(BODYREL))] + [{'builder': True}]


def make_variants(pane, tagset, bodyrel, kind):
    """Returns list of (variant type, tag, good bodies, bad bodies)."""
    out = []
    rev = list(reversed(tagset))
    for i, tag in enumerate(tagset):
        tag2 = rev[i]
        if kind == 'pane':
            if bodyrel == 'identical':
                fields = {'y': (int, 1)}
            elif bodyrel == 'nested':
                fields = dict(list({'y': (int, 1), 'z': (int, 7), 'w': (str, 'w')}.items())[: i + 1])
            else:
                fields = [{'a': (int, 1)}, {'b': (str, 's')}, {'c': (float, 0.5)}][i]
            ann = {'x': t.Literal[tag], 'x2': t.Literal[tag2], **{k: ty for k, (ty, _) in fields.items()}}
            ns = {'__annotations__': ann, 'x': tag, 'x2': tag2, '__module__': 'mc.generated', **{k: d for k, (_, d) in fields.items()}}
            V = grammar.pin(type(f"V{i + 1}", (pane.PaneBase,), ns))
            names = list(fields)
            good = [{}, {names[0]: fields[names[0]][1]}, {k: d for k, (_, d) in fields.items()}]
            bad = [{names[0]: [None]}, {**good[2], 'unknown': 1}, {names[0]: {'q': 1}}]
        elif kind == 'dictsub':
            V = grammar.pin(type(f"D{i + 1}", (dict,), {'x': tag, 'x2': tag2, '__module__': 'mc.generated'}))
            good = [{}, {'k': 1}, {'k': [1, 2], 'j': None}]
            bad = []
        else:
            base = [int, float, str][i % 3] if bodyrel != 'identical' else int
            V = grammar.pin(type(f"S{i + 1}", (base,), {'x': tag, 'x2': tag2, '__module__': 'mc.generated'}))
            good = [{int: 4, float: 2.5, str: 'q'}[base]]
            bad = [[1], None, {'a': 1}]
        out.append((V, tag, good, bad))
    return out


def wrap(layout, tagname, tag, body):
    kind, ext = layout
    if kind == 'internal':
        if not isinstance(body, dict):
            return None
        d = dict(body)
        if tag is not ABSENT:
            d[tagname] = tag
        return d
    if kind == 'external':
        if tag is ABSENT:
            return {}
        try:
            return {tag: body}
        except TypeError:
            return None
    tk, ck = ext
    d = {}
    if tag is not ABSENT:
        d[tk] = tag
    d[ck] = body
    return d


def wrap_content_first(layout, tag, body):
    """Adjacent layout with the content key before the tag key (what sort_keys=True writes for ('t', 'c'))."""
    tk, ck = layout[1]
    return {ck: body, tk: tag}


def declared_index(tagset, tag):
    """index of the declared tag equal to `tag` with the same type; None otherwise (a number of another kind that merely
    compares equal included); 'unspec' if a non-number is only == with another type."""
    if tag is ABSENT:
        return None
    eq_other = False
    for i, tg in enumerate(tagset):
        try:
            if type(tg) is type(tag) and tg == tag:
                return i
            if tg == tag:
                eq_other = True
        except Exception:  # noqa
            pass
    if eq_other and isinstance(tag, (bool, int, float, complex)):
        return None      # tags are literal values like Literal[...]'s: 1.0 and True are not the tag 1 (C02: a float is never taken for an int)
    return 'unspec' if eq_other else None


def alone(pane, V, body):
    from pane.errors import ConvertError
    try:
        return ('ok', pane.from_data(values.fresh(body), V))
    except ConvertError as e:
        return ('rej', e)
    except Exception as e:  # noqa
        return ('raw', e)


def names_tag(text, tagset, layout):
    kind, ext = layout
    if "'x'" in text or ' x ' in text:
        return True
    if kind == 'adjacent' and ("'t'" in text):
        return True
    return all(repr(tg) in text or str(tg) in text for tg in tagset)


def run_type(pane, res, tsi, bri, kind, li, tier):
    from pane.annotations import Tagged
    from pane.errors import ConvertError
    tagset, bodyrel, layout = TAGSETS[tsi], BODYREL[bri], LAYOUTS[li]
    variants = make_variants(pane, tagset, bodyrel, kind)
    U = t.Union[tuple(v[0] for v in variants)]
    TU = grammar.pin(t.Annotated[U, Tagged('x', external=layout[1])])
    info = {'ts': tsi, 'br': bri, 'kind': kind, 'layout': li}
    lname = layout[0]
    data: t.List[t.Tuple[str, t.Any, t.Any, t.Any]] = []      # (case, tag, body, datum)
    for (V, tag, good, bad) in variants:
        for body in good + bad:
            for tg in list(tagset) + ODD_TAGS + [ABSENT]:
                d = wrap(layout, 'x', tg, body)
                if d is not None:
                    data.append(('wrapped', tg, body, d))
                if lname == 'adjacent' and tg is not ABSENT:
                    data.append(('wrapped', tg, body, wrap_content_first(layout, tg, body)))
    # layout-specific malformed wrappers
    b0 = variants[0][2][0]
    if lname == 'external':
        data.append(('ext_two_keys', ABSENT, b0, {tagset[0]: b0, tagset[1]: b0}))
        data.append(('ext_zero_keys', ABSENT, b0, {}))
    if lname == 'adjacent':
        data.append(('adj_missing_c', tagset[0], b0, {'t': tagset[0]}))
        data.append(('adj_extra_key', tagset[0], b0, {'t': tagset[0], 'c': b0, 'more': 1}))
        data.append(('adj_wrong_keys', ABSENT, b0, {'T': tagset[0], 'C': b0}))
        data.append(('adj_wrong_keys', ABSENT, b0, {'t': tagset[0], 'C': b0}))       # two keys, only one of them right
        data.append(('adj_wrong_keys', ABSENT, b0, {'T': tagset[0], 'c': b0}))
        data.append(('adj_wrong_keys', ABSENT, b0, {'t': tagset[0], 1: None}))
    if lname == 'internal':
        data.append(('int_tag_only', tagset[0], {}, {'x': tagset[0]}))
    for v in values.POOL:
        if values.kind(v) != 'map':
            data.append(('non_mapping', ABSENT, None, v))
    second_attribute_and_holder(pane, res, variants, tagset, layout, kind, bodyrel, TU, info)
    embeddings(pane, res, variants, tagset, layout, kind, bodyrel, TU, info)
    if kind == 'pane' and layout[0] == 'internal' and bodyrel == 'identical':
        noinit_tag(pane, res, tagset, info)
    seen = set()
    for case, tg, body, d in data:
        k = values.ckey(d)
        if k in seen:
            continue
        seen.add(k)
        res['states'] += 1
        cell = dict(info, d=values.expr(d))
        d_obj = values.fresh(d)
        try:
            out = ('ok', pane.from_data(d_obj, TU))
        except ConvertError as e:
            out = ('rej', e)
        except Exception as e:  # noqa
            out = ('raw', e)
        # the very same mapping object presented again (aliased YAML node, retry) must be diagnosed identically
        try:
            out2 = ('ok', pane.from_data(d_obj, TU))
        except ConvertError as e:
            out2 = ('rej', e)
        except Exception as e:  # noqa
            out2 = ('raw', e)
        if out[0] != 'raw' and (out2[0] != out[0] or (out[0] == 'rej' and not trees.node_eq(out[1].tree, out2[1].tree))
                                or (out[0] == 'ok' and not (values.typed_eq(out[1], out2[1]) or out[1] == out2[1]))):
            core.add_violation(res, {'kind': 'second_look_differs', 'layout': lname, 'vkind': kind},
                               f"{lname}/{kind}/{bodyrel} tags={tagset}: converting the same mapping object {values.expr(d)[:60]} twice gives "
                               f"{out[0]} {core.sstr(out[1], 70)!r} then {out2[0]} {core.sstr(out2[1], 70)!r}", dict(info, d=values.expr(d)), 5)
        res['evals'] += 1
        res['transitions'] += 1
        desc = f"{lname}/{kind}/{bodyrel} tags={tagset}: from_data({values.expr(d)[:70]})"
        sig = {'layout': lname, 'vkind': kind}
        if out[0] == 'raw':
            core.add_violation(res, {'kind': 'foreign_exception', 'exc': type(out[1]).__name__, 'site': core.site_of(out[1])},
                               f"{desc} raised {type(out[1]).__name__}: {core.sstr(out[1], 100)}", cell, 5)
            continue
        # which variant should it be?
        if case == 'wrapped' or case == 'int_tag_only':
            idx = declared_index(tagset, tg)
        elif case in ('adj_missing_c', 'adj_extra_key', 'ext_two_keys', 'ext_zero_keys', 'adj_wrong_keys', 'non_mapping'):
            idx = None
        else:
            idx = None
        if idx == 'unspec':
            res['unspec']['tag_equal_other_type'] += 1
            continue
        res['validated'] += 1
        tagcase = 'declared' if isinstance(idx, int) else case if case != 'wrapped' else \
            ('absent' if tg is ABSENT else f"odd:{type(tg).__name__}")
        res['outcomes'][f"{tagcase.split(':')[0]}/{out[0]}"] += 1
        if values.kind(d) == 'map':
            res['nontrivial'].add(f"{lname}|{kind}|{bodyrel}|{tagcase}|{out[0]}")
        if isinstance(idx, int):
            V = variants[idx][0]
            exp = alone(pane, V, body)
            res['transitions'] += 1
            if exp[0] == 'raw':
                continue
            if exp[0] == 'ok':
                if out[0] != 'ok':
                    core.add_violation(res, {'kind': 'declared_tag_rejected', **sig},
                                       f"{desc}: rejected although tag {tg!r} is declared and variant {V.__name__} accepts the body "
                                       f"({core.sstr(out[1], 100)})", cell, 5)
                    continue
                r = out[1]
                if type(r) is not V or not (values.typed_eq(r, exp[1]) or r == exp[1]):
                    core.add_violation(res, {'kind': 'wrong_variant', **sig},
                                       f"{desc}: returned {core.srepr(r, 60)} ({type(r).__name__}); tag {tg!r} selects {V.__name__}, "
                                       f"which alone gives {core.srepr(exp[1], 60)}", cell, 5)
                    continue
                check_symmetry(pane, res, TU, r, tg, layout, kind, desc, cell, sig)
            else:
                if out[0] == 'ok':
                    core.add_violation(res, {'kind': 'body_error_ignored', **sig},
                                       f"{desc}: returned {core.srepr(out[1], 60)} although variant {V.__name__} rejects the body", cell, 5)
                    continue
                if not trees.node_eq(out[1].tree, exp[1].tree):
                    core.add_violation(res, {'kind': 'body_error_not_variants_own', **sig},
                                       f"{desc}: error tree {core.srepr(out[1].tree, 100)} is not the tree of variant {V.__name__} alone "
                                       f"({core.srepr(exp[1].tree, 100)})", cell, 5)
        else:
            if out[0] == 'ok':
                core.add_violation(res, {'kind': 'accepted_without_declared_tag', 'case': tagcase.split(':')[0], **sig},
                                   f"{desc}: returned {core.srepr(out[1], 60)} although the tag is {tagcase}", cell, 5)
                continue
            text = core.sstr(out[1], 2000)
            if values.kind(d) == 'map' and not names_tag(text, tagset, layout):
                core.add_violation(res, {'kind': 'error_does_not_name_tag', 'case': tagcase.split(':')[0], **sig},
                                   f"{desc}: the ConvertError does not name the tag: {text[:160]!r}", cell, 5)


def second_attribute_and_holder(pane, res, variants, tagset, layout, kind, bodyrel, TU, info):
    from pane.annotations import Tagged
    from pane.errors import ConvertError
    lname = layout[0]
    U = t.Union[tuple(v[0] for v in variants)]
    # (1) the same variant tuple tagged by ANOTHER attribute must dispatch on that attribute's values
    TU2 = grammar.pin(t.Annotated[U, Tagged('x2', external=layout[1])])
    rev = list(reversed(tagset))
    for i, (V, tag, good, bad) in enumerate(variants):
        tag2 = rev[i]
        body = good[0]
        d = wrap(layout, 'x2', tag2, body)
        if d is None:
            continue
        res['evals'] += 1
        res['transitions'] += 1
        res['validated'] += 1
        res['nontrivial'].add(f"second_attr|{lname}|{kind}|{bodyrel}")
        try:
            r = pane.from_data(values.fresh(d), TU2)
            got = type(r).__name__
        except ConvertError as e:
            r, got = None, 'ConvertError: ' + core.sstr(e, 60)
        except Exception as e:  # noqa
            r, got = None, f"{type(e).__name__}: {core.sstr(e, 60)}"
        if type(r) is not V:
            core.add_violation(res, {'kind': 'second_tag_attribute_dispatch', 'layout': lname, 'vkind': kind},
                               f"{lname}/{kind}/{bodyrel} tags={tagset}: the same variants tagged by attribute 'x2' (values {rev}): "
                               f"{values.expr(d)[:60]} must select {V.__name__} (x2={tag2!r}), got {got}", dict(info, d='second:' + values.expr(d)), 5)
    # (2) a tuple-output dataclass holding the tagged union in a field writes the union's layout and reads it back
    if kind != 'pane' and lname == 'internal':
        return
    try:
        H = grammar.pin(type('TagHolder', (pane.PaneBase,), {'__annotations__': {'n': int, 'u': TU}, '__module__': 'mc.generated'},
                             out_format='tuple', in_format=('tuple', 'struct')))
    except Exception as e:  # noqa
        core.add_violation(res, {'kind': 'holder_creation', 'exc': type(e).__name__}, f"holder class: {e!r}", dict(info, d='holder'), 5)
        return
    for (V, tag, good, bad) in variants:
        try:
            inner = pane.from_data(values.fresh(good[-1]), V)
            h = H.make_unchecked(1, inner)
            d = pane.into_data(h, H)
            back = pane.from_data(values.fresh(d), H)
            ok = type(back) is H and (back == h or values.typed_eq(back, h))
            got = f"into_data -> {core.srepr(d, 70)} -> {core.srepr(back, 50)}"
        except Exception as e:  # noqa
            ok, got = False, f"{type(e).__name__}: {core.sstr(e, 90)}"
        res['evals'] += 1
        res['transitions'] += 2
        res['validated'] += 1
        res['nontrivial'].add(f"holder|{lname}|{kind}|{bodyrel}")
        if not ok:
            core.add_violation(res, {'kind': 'tuple_output_holder_roundtrip', 'layout': lname, 'vkind': kind},
                               f"{lname}/{kind}/{bodyrel} tags={tagset}: a tuple-output dataclass with a field of the tagged union: {got}",
                               dict(info, d='holder'), 5)


def noinit_tag(pane, res, tagset, info):
    """Variants whose tag is a field the class sets itself (init=False): under the internal layout the tag is still written with the
    variant's own keys and read back."""
    from pane.annotations import Tagged
    vs = []
    for i, tag in enumerate(tagset):
        ns = {'__annotations__': {'y': int, 'x': t.Literal[tag]}, 'y': 1, 'x': pane.field(default=tag, init=False), '__module__': 'mc.generated'}
        vs.append(grammar.pin(type(f"N{i + 1}", (pane.PaneBase,), ns)))
    TU = grammar.pin(t.Annotated[t.Union[tuple(vs)], Tagged('x')])
    for V, tag in zip(vs, tagset):
        res['evals'] += 1
        res['validated'] += 1
        res['transitions'] += 3
        res['nontrivial'].add(f"noinit_tag|{type(tag).__name__}")
        cell = dict(info, d=f"noinit:{tag!r}")
        try:
            x = pane.from_data({'x': tag, 'y': 4}, TU)
            d = pane.into_data(x, TU)
            back = pane.from_data(values.fresh(d), TU)
            ok = type(x) is V and isinstance(d, dict) and 'x' in d and type(back) is V and back == x
            got = f"from_data -> {core.srepr(x, 40)}, into_data -> {core.srepr(d, 60)}, read back -> {core.srepr(back, 40)}"
        except Exception as e:  # noqa
            ok, got = False, f"{type(e).__name__}: {core.sstr(e, 100)}"
        if not ok:
            core.add_violation(res, {'kind': 'noinit_tag_roundtrip', 'tagtype': type(tag).__name__},
                               f"internal layout, variants whose tag field is init=False, tags={tagset}, tag {tag!r}: {got}", cell, 5)


_TRUE: t.List[t.Any] = []


def embeddings(pane, res, variants, tagset, layout, kind, bodyrel, TU, info):
    """The tagged type in three more places it can legitimately stand: (a) as a LATER member of an untagged union, after members that
    have nothing to do with it; (b) handed to the file writers / readers as `ty`; (c) next to a condition in the same Annotated.
    Everywhere the declared tag must select its variant and serialisation must write the layout that is read."""
    import io as _io
    from pane.annotations import Tagged, Condition
    from pane.errors import ConvertError
    lname = layout[0]
    if not _TRUE:
        _TRUE.append(grammar.pin(Condition(lambda v: True, 'anything')))
    U = t.Union[tuple(v[0] for v in variants)]
    grammar.fresh_typing()
    outer = [('after_none', t.Union[None, TU]), ('after_int', t.Union[int, TU]), ('after_list', t.Union[t.List[int], TU]),
             ('after_str_none', t.Union[str, None, TU])]
    # (annotations wrap from left to right: Tagged has to stand directly on the union, a condition may follow it - the reverse
    #  order is refused when the converter is built, which is the documented behaviour for an unsupported spelling)
    conds = [('tagged_then_condition', t.Annotated[U, Tagged('x', external=layout[1]), _TRUE[0]])]
    for (V, tag, good, bad) in variants:
        body = good[-1]
        d = wrap(layout, 'x', tag, body)
        if d is None:
            continue
        ref = alone(pane, V, body)
        if ref[0] != 'ok':
            continue
        try:
            ref_data = pane.into_data(ref[1], TU)
        except Exception:  # noqa
            continue
        judge_ser = not (lname == 'internal' and kind != 'pane')
        # (a variant that is itself an int / str / dict would be claimed by an earlier plain member: only dataclass variants there)
        for name, T2 in (outer if kind == 'pane' else []) + conds:
            grammar.pin(T2)
            res['evals'] += 1
            res['transitions'] += 2
            res['validated'] += 1
            res['nontrivial'].add(f"embed|{name}|{lname}|{kind}")
            cell = dict(info, d=f"embed:{name}:" + values.expr(d))
            where = f"{lname}/{kind}/{bodyrel} tags={tagset}: the tagged union {name.replace('_', ' ')}"
            try:
                r = pane.from_data(values.fresh(d), T2)
            except Exception as e:  # noqa
                core.add_violation(res, {'kind': 'embedded_dispatch', 'where': name, 'layout': lname, 'vkind': kind},
                                   f"{where}: from_data({values.expr(d)[:60]}) raised {type(e).__name__}: {core.sstr(e, 80)}; tag {tag!r} selects {V.__name__}", cell, 6)
                continue
            if type(r) is not V or not (r == ref[1] or values.typed_eq(r, ref[1])):
                core.add_violation(res, {'kind': 'embedded_dispatch', 'where': name, 'layout': lname, 'vkind': kind},
                                   f"{where}: from_data({values.expr(d)[:60]}) returned {core.srepr(r, 60)}; tag {tag!r} selects {V.__name__} -> {core.srepr(ref[1], 50)}", cell, 6)
                continue
            if not judge_ser:
                continue
            try:
                out = pane.into_data(r, T2)
                back = pane.from_data(values.fresh(out), T2)
                ok = (values.typed_eq(out, ref_data) or out == ref_data) and type(back) is V and (back == r or values.typed_eq(back, r))
                got = f"into_data -> {core.srepr(out, 70)}, read back -> {core.srepr(back, 50)}"
            except Exception as e:  # noqa
                ok, got = False, f"{type(e).__name__}: {core.sstr(e, 90)}"
            if not ok:
                core.add_violation(res, {'kind': 'embedded_serialisation', 'where': name, 'layout': lname, 'vkind': kind},
                                   f"{where}: {got}; the tagged type alone writes {core.srepr(ref_data, 70)}", cell, 6)
        # an unknown tag stays an error that names the tag when a condition stands next to Tagged
        dz = wrap(layout, 'x', 'zz', body)
        for name, T2 in conds:
            if dz is None:
                continue
            try:
                r = pane.from_data(values.fresh(dz), T2)
                problem = f"accepted ({core.srepr(r, 50)})"
            except ConvertError as e:
                problem = None if names_tag(core.sstr(e, 2000), tagset, layout) else f"ConvertError does not name the tag: {core.sstr(e, 120)!r}"
            except Exception as e:  # noqa
                problem = f"raised {type(e).__name__}"
            res['evals'] += 1
            if problem:
                core.add_violation(res, {'kind': 'embedded_unknown_tag', 'where': name, 'layout': lname, 'vkind': kind},
                                   f"{lname}/{kind}/{bodyrel} tags={tagset}: {name}: unknown tag in {values.expr(dz)[:60]}: {problem}",
                                   dict(info, d=f"embed:{name}:" + values.expr(dz)), 6)
        # the file writers and readers, given the tagged type itself
        if not judge_ser:
            continue
        for fmt in ('json', 'yaml'):
            if fmt == 'json':
                import json as _json
                try:
                    if _json.loads(_json.dumps(ref_data)) != ref_data:
                        continue      # JSON itself cannot carry this data (non-string keys of the external layout)
                except Exception:  # noqa
                    continue
            try:
                buf = _io.StringIO()
                (pane.write_json if fmt == 'json' else pane.write_yaml)(ref[1], buf, ty=TU)
                text = buf.getvalue()
                back = (pane.from_json if fmt == 'json' else pane.from_yaml)(_io.StringIO(text), TU)
                ok = type(back) is V and (back == ref[1] or values.typed_eq(back, ref[1]))
                got = f"wrote {text.strip()[:70]!r}, read back {core.srepr(back, 50)}"
            except Exception as e:  # noqa
                ok, got = False, f"{type(e).__name__}: {core.sstr(e, 100)}"
            res['evals'] += 1
            res['transitions'] += 2
            res['validated'] += 1
            if not ok:
                core.add_violation(res, {'kind': 'file_roundtrip', 'format': fmt, 'layout': lname, 'vkind': kind},
                                   f"{lname}/{kind}/{bodyrel} tags={tagset}: write_{fmt}(x, ty=<tagged type>) then from_{fmt}: {got}; into_data(x, ty) is {core.srepr(ref_data, 60)}",
                                   dict(info, d=f"embed:{fmt}:" + values.expr(d)), 6)


def check_symmetry(pane, res, TU, x, tag, layout, kind, desc, cell, sig):
    lname = layout[0]
    if lname == 'internal' and kind != 'pane':
        res['unspec']['internal_serialisation_of_non_dataclass_variant'] += 1
        return
    try:
        d = pane.into_data(x, TU)
    except Exception as e:  # noqa
        core.add_violation(res, {'kind': 'into_data_raises', 'exc': type(e).__name__, **sig},
                           f"{desc}: into_data of the result raised {type(e).__name__}: {core.sstr(e, 80)}", cell, 5)
        return
    res['transitions'] += 2
    shape_ok = isinstance(d, dict)
    if shape_ok:
        if lname == 'internal':
            shape_ok = 'x' in d and values.typed_eq(d['x'], tag)
        elif lname == 'external':
            shape_ok = len(d) == 1 and values.typed_eq(next(iter(d)), tag)
        else:
            shape_ok = set(d) == {'t', 'c'} and values.typed_eq(d['t'], tag)
    if not shape_ok:
        core.add_violation(res, {'kind': 'serialised_shape', **sig},
                           f"{desc}: into_data gave {core.srepr(d, 80)}, not the {lname} layout for tag {tag!r}", cell, 5)
        return
    try:
        back = pane.from_data(values.fresh(d), TU)
        ok = type(back) is type(x) and (values.typed_eq(back, x) or back == x)
    except Exception as e:  # noqa
        back, ok = e, False
    if not ok:
        core.add_violation(res, {'kind': 'layout_not_symmetric', **sig},
                           f"{desc}: into_data -> {core.srepr(d, 70)} which reads back as {core.srepr(back, 70)}", cell, 5)


def run_builder(pane, res):
    from pane.annotations import Tagged
    from pane.convert import make_converter
    for tags in [('a', 'a'), (1, 1), ('a', 'b', 'a'), (1, True), (0, False), (1, 1.0)]:
        for li, layout in enumerate(LAYOUTS):
            res['states'] += 1
            res['evals'] += 1
            res['validated'] += 1
            vs = [grammar.pin(type(f"B{i}", (pane.PaneBase,), {'__annotations__': {'x': t.Any, 'y': int}, 'x': tg, 'y': 1,
                                                                '__module__': 'mc.generated'})) for i, tg in enumerate(tags)]
            TU = t.Annotated[t.Union[tuple(vs)], Tagged('x', external=layout[1])]
            cell = {'builder': True, 'tags': values.expr(list(tags)), 'layout': li}
            try:
                make_converter(TU)
            except TypeError:
                res['outcomes']['duplicate_refused'] += 1
                res['nontrivial'].add(f"dup|{tags}|{layout[0]}")
                continue
            except Exception as e:  # noqa
                core.add_violation(res, {'kind': 'duplicate_tags_wrong_exception', 'exc': type(e).__name__},
                                   f"duplicate tag values {tags} ({layout[0]}): make_converter raised {type(e).__name__}", cell, 1)
                continue
            core.add_violation(res, {'kind': 'duplicate_tags_accepted', 'layout': layout[0]},
                               f"duplicate tag values {tags} ({layout[0]} layout) were accepted when the type was built", cell, 1)


def run_builder_subclasses(pane, res):
    """Duplicate tag values are refused also when the second variant is a SUBCLASS of the first and merely inherits its tag
    (in either order): the tag alone could not tell them apart."""
    from pane.annotations import Tagged
    from pane.convert import make_converter
    for li, layout in enumerate(LAYOUTS):
        Base = grammar.pin(type('BBase', (pane.PaneBase,), {'__annotations__': {'x': t.Literal['a'], 'y': int}, 'x': 'a', 'y': 1, '__module__': 'mc.generated'}))
        Sub = grammar.pin(type('BSub', (Base,), {'__annotations__': {'z': int}, 'z': 2, '__module__': 'mc.generated'}))
        Other = grammar.pin(type('BOther', (pane.PaneBase,), {'__annotations__': {'x': t.Literal['b']}, 'x': 'b', '__module__': 'mc.generated'}))
        for order, vs in (('base, subclass', (Base, Sub, Other)), ('subclass, base', (Sub, Base, Other)), ('other between', (Base, Other, Sub))):
            res['states'] += 1
            res['evals'] += 1
            res['validated'] += 1
            res['nontrivial'].add(f"dup_subclass|{order}|{layout[0]}")
            cell = {'builder': True, 'tags': f"subclass:{order}", 'layout': li}
            try:
                make_converter(t.Annotated[t.Union[vs], Tagged('x', external=layout[1])])
            except TypeError:
                res['outcomes']['duplicate_refused'] += 1
                continue
            except Exception as e:  # noqa
                core.add_violation(res, {'kind': 'duplicate_tags_wrong_exception', 'exc': type(e).__name__},
                                   f"a variant and its subclass with the inherited tag ({order}, {layout[0]}): make_converter raised {type(e).__name__}", cell, 1)
                continue
            core.add_violation(res, {'kind': 'duplicate_tags_accepted', 'layout': layout[0]},
                               f"a variant and its subclass sharing the inherited tag value 'a' ({order}; {layout[0]} layout) were accepted when the type was built", cell, 1)


def run_restricted_variants(pane, res):
    """(a) a variant that reads positional data only (in_format=['tuple']): whatever the layout, the body goes through THAT
    variant's converter - a mapping body is its body error, a sequence body gives what the variant alone gives.
    (b) a variant that is a SUBCLASS of an earlier variant and has its own tag: it is written under its own tag with its own
    fields, and read back as itself."""
    from pane.annotations import Tagged
    from pane.convert import make_converter
    from pane.errors import ConvertError
    for li, layout in enumerate(LAYOUTS):
        def mk():
            A = grammar.pin(type('RTup', (pane.PaneBase,), {'__annotations__': {'x': t.Literal['a'], 'y': int}, 'x': 'a', 'y': 1,
                                                            '__module__': 'mc.generated'}, in_format=['tuple']))
            B = grammar.pin(type('ROther', (pane.PaneBase,), {'__annotations__': {'x': t.Literal['b'], 'y': int}, 'x': 'b', 'y': 1,
                                                              '__module__': 'mc.generated'}))
            return A, B
        A, B = mk()
        T = t.Annotated[t.Union[A, B], Tagged('x', external=layout[1])]
        conv = make_converter(T)
        bodies = [{}, {'y': 2}, {'x': 'a', 'y': 2}, ['a'], ['a', 2], ['a', 'q'], [], ['a', 2, 3]]
        for body in bodies:
            d = wrap(layout, 'x', 'a', values.fresh(body))
            if d is None:
                continue
            # the variant alone, on what it is handed: the body (internal layout: the mapping itself, with or without the tag)
            alone_in = values.fresh(body)
            try:
                want = ('ok', pane.from_data(alone_in, A))
            except ConvertError:
                want = ('rej', None)
            try:
                got = ('ok', pane.from_data(values.fresh(d), T))
            except ConvertError:
                got = ('rej', None)
            except Exception as e:  # noqa
                got = ('raw', f"{type(e).__name__}: {core.sstr(e, 60)}")
            res['states'] += 1
            res['evals'] += 1
            res['validated'] += 1
            res['transitions'] += 2
            res['nontrivial'].add(f"tuple_only|{layout[0]}|{values.kind(body)}|{want[0]}")
            cell = {'builder': True, 'tags': f"tuple_only:{layout[0]}:{values.expr(body)}", 'layout': li}
            if got[0] != want[0] or (got[0] == 'ok' and got[1] != want[1]):
                core.add_violation(res, {'kind': 'restricted_variant_bypassed', 'layout': layout[0], 'want': want[0], 'got': got[0]},
                                   f"{layout[0]} layout, tag 'a' selects a variant with in_format=['tuple']: from_data({values.expr(d)}) -> {got[0]} "
                                   f"{core.srepr(got[1], 50)}; that variant alone on the body {values.expr(body)} -> {want[0]} {core.srepr(want[1], 50)}", cell, 3)
            # both passes of the tagged converter agree
            try:
                conv.try_convert(values.fresh(d))
                fast = 'ok'
            except Exception:  # noqa
                fast = 'fail'
            try:
                diag = 'fail' if conv.collect_errors(values.fresh(d)) is not None else 'ok'
            except Exception as e:  # noqa
                diag = 'raw:' + type(e).__name__
            if fast != diag:
                core.add_violation(res, {'kind': 'restricted_variant_passes_disagree', 'layout': layout[0]},
                                   f"{layout[0]} layout, tuple-only variant, {values.expr(d)}: try_convert -> {fast}, collect_errors -> {diag}", cell, 3)
        # (b) subclass variant with its own tag, listed after its base
        Base = grammar.pin(type('RBase', (pane.PaneBase,), {'__annotations__': {'x': t.Literal['base'], 'y': int}, 'x': 'base', 'y': 1, '__module__': 'mc.generated'}))
        Sub = grammar.pin(type('RSub', (Base,), {'__annotations__': {'x': t.Literal['sub'], 'z': int}, 'x': 'sub', 'z': 2, '__module__': 'mc.generated'}))
        for order, vs in (('base first', (Base, Sub)), ('subclass first', (Sub, Base))):
            T2 = t.Annotated[t.Union[vs], Tagged('x', external=layout[1])]
            for val in (Sub(y=5, z=7), Base(y=5)):
                res['states'] += 1
                res['evals'] += 1
                res['validated'] += 1
                res['nontrivial'].add(f"subclass_variant|{layout[0]}|{order}|{type(val).__name__}")
                cell = {'builder': True, 'tags': f"subvariant:{layout[0]}:{order}:{type(val).__name__}", 'layout': li}
                try:
                    d = pane.into_data(val, T2)
                    back = pane.from_data(values.fresh(d), T2)
                    ok = type(back) is type(val) and back == val
                    how = f"wrote {d!r}, read back {back!r}"
                except Exception as e:  # noqa
                    ok, how = False, f"{type(e).__name__}: {core.sstr(e, 80)}"
                if not ok:
                    core.add_violation(res, {'kind': 'subclass_variant_written_as_base', 'layout': layout[0], 'order': order},
                                       f"{layout[0]} layout, variants ({order}) where RSub subclasses RBase and has its own tag: into_data({val!r}) "
                                       f"{how}", cell, 3)


def run_shard(shard, tier):
    pane = core.import_pane()
    warnings.simplefilter('ignore')
    res = core.new_result()
    if shard.get('builder'):
        run_builder(pane, res)
        run_builder_subclasses(pane, res)
        run_restricted_variants(pane, res)
        return res
    for kind in KINDS:
        for li in range(len(LAYOUTS)):
            try:
                run_type(pane, res, shard['ts'], shard['br'], kind, li, tier)
            except Exception as e:  # noqa
                core.add_violation(res, {'kind': 'oracle_exception', 'exc': type(e).__name__},
                                   f"type {shard} {kind} {li} raised {type(e).__name__}: {core.sstr(e)}",
                                   {'ts': shard['ts'], 'br': shard['br'], 'kind': kind, 'layout': li, 'd': None}, 9)
    if shard['ts'] == 0 and shard['br'] == 0:
        res['samples'].append({'tags': TAGSETS[0], 'layout': 'adjacent', 'datum': "{'t': 'v1', 'c': {'y': 1}}", 'odd_tags': [values.expr(x) for x in ODD_TAGS]})
    return res


def replay(cell):
    pane = core.import_pane()
    warnings.simplefilter('ignore')
    res = core.new_result()
    if cell.get('builder'):
        run_builder(pane, res)
        run_builder_subclasses(pane, res)
        run_restricted_variants(pane, res)
        return [v for lst in res['violations'].values() for v in lst if v['cell'].get('tags') == cell.get('tags')]
    run_type(pane, res, cell['ts'], cell['br'], cell['kind'], cell['layout'], 'quick')
    out = [v for lst in res['violations'].values() for v in lst]
    return [v for v in out if v['cell'].get('d') == cell.get('d')] or out
