"""
C01 - conversion accepts exactly the members of the type and returns the exactly-typed deep image.
E1 exploration against the reference model (mc/refmodel.py).
"""
from __future__ import annotations

from mc import core, e1, grammar, values, refmodel
from mc.refmodel import OK, REJ, UNSPEC

ID = 'C01'
META = {
    'rule': "cells = (type expression of the tier grammar) x (every equivalent spelling) x (members + every single-deviation "
            "neighbour of the first members + fixed POOL of interchange values); each cell runs pane.from_data on the real "
            "code and is compared with the reference model's verdict and exactly-typed image (UNSPEC cells are counted, not "
            "judged); additionally a freshly built converter must agree with the memoised one and all spellings of one "
            "expression must agree cell by cell. Non-trivial: the cell reaches a composite converter or a rejection/acceptance "
            "below the root; distinct key = (root constructor, model verdict, implementation outcome, value kind, leaf set hash).",
    'assumptions': ["reference model transcribed from docs/ and the property statement (DESIGN.md Appendix A); UNSPEC classes "
                    "are not judged", "nesting bounded (quick: depth 2 over all leaves + depth 3 over 2 leaves; thorough: "
                    "depth 3 over 11 leaves); value atoms from fixed pools"],
    'bounds': {'quick': 'depth<=2 full leaf set, depth 3 over {int,str}; 1 deviation on 3 members; all spellings',
               'thorough': 'depth<=3 over 11 leaves; 1 deviation on 5 members; all spellings'},
}

plan = e1.plan


def outcome_of(pane, T, v, fn=None):
    from pane.errors import ConvertError
    try:
        return ('ok', (fn or pane.from_data)(v, T) if fn is None else fn(v))
    except ConvertError as e:
        return ('rej', e)
    except Exception as e:  # noqa: counted, reported by C04
        return ('raw:' + type(e).__name__, e)


_MARK = '<scribble>'


def poison(x, depth=0) -> bool:
    """Modify every mutable container reachable from a conversion result in place; True when something was modified."""
    import collections
    hit = False
    if depth > 6:
        return False
    if isinstance(x, list):
        for e in list(x):
            hit |= poison(e, depth + 1)
        x.append(_MARK)
        return True
    if isinstance(x, collections.deque):
        for e in list(x):
            hit |= poison(e, depth + 1)
        x.append(_MARK)
        return True
    if isinstance(x, dict):
        for e in list(x.values()):
            hit |= poison(e, depth + 1)
        x[_MARK] = _MARK
        return True
    if isinstance(x, set):
        x.add(_MARK)
        return True
    if isinstance(x, (tuple, frozenset)):
        for e in x:
            try:
                hit |= poison(e, depth + 1)
            except Exception:  # noqa
                pass
        return hit
    if hasattr(type(x), '__pane_info__'):
        for f in type(x).__pane_info__.fields:
            hit |= poison(getattr(x, f.name, None), depth + 1)
    return hit


def judge(ctx, ast, sp, T, vi, v):
    res = ctx.res
    pane = ctx.pane
    r = refmodel.ref(ast, v)
    out = outcome_of(pane, T, values.fresh(v))
    res['evals'] += 1
    res['transitions'] += 1
    root = e1.root_of(ast)
    vk = values.kind(v)
    res['outcomes'][f"{r[0]}/{out[0]}"] += 1
    if not isinstance(ast, str) or r[0] != REJ or vk in ('seq', 'map'):
        res['nontrivial'].add(f"{root}|{r[0]}|{out[0]}|{vk}|{hash(repr(sorted(e1.leaves_of(ast)))) % 9973}")
    if r[0] == UNSPEC:
        res['unspec'][r[1]] += 1
        return
    res['validated'] += 1
    cost = e1.size(ast) * 10 + e1.vsize(v)
    leaves = sorted(e1.leaves_of(ast))
    if r[0] == OK:
        if out[0] != 'ok':
            core.add_violation(res, {'kind': 'rejects_member', 'root': root, 'vkind': vk, 'leaves': leaves, 'how': out[0]},
                               f"from_data({values.expr(v)}, {grammar.render(ast)} [{T!r}]) -> {out[0]} "
                               f"({core.sstr(out[1], 160)!r}) but the value denotes a member; expected image {r[1]!r}",
                               e1.cell_desc(ast, sp, vi, v), cost)
            return
        m = refmodel.match(r[1], out[1])
        if m:
            core.add_violation(res, {'kind': 'wrong_image', 'root': root, 'vkind': vk, 'leaves': leaves},
                               f"from_data({values.expr(v)}, {grammar.render(ast)} [{T!r}]) returned {core.srepr(out[1])}: {m}",
                               e1.cell_desc(ast, sp, vi, v), cost)
            return
    else:
        if out[0].startswith('raw:'):
            # "in every other case it raises ConvertError": a non-member that makes anything else come out is a wrong answer too
            core.add_violation(res, {'kind': 'nonmember_raises_other_exception', 'root': root, 'exc': out[0][4:], 'site': core.site_of(out[1])},
                               f"from_data({values.expr(v)}, {grammar.render(ast)} [{T!r}]) raised {out[0][4:]}: {core.sstr(out[1], 120)} - the value is "
                               f"not a member ({r[1]}), which calls for ConvertError", e1.cell_desc(ast, sp, vi, v), cost)
            return
        if out[0] == 'ok':
            core.add_violation(res, {'kind': 'accepts_nonmember', 'root': root, 'vkind': vk, 'leaves': leaves},
                               f"from_data({values.expr(v)}, {grammar.render(ast)} [{T!r}]) returned {core.srepr(out[1])} but the "
                               f"value is not a member ({r[1]})", e1.cell_desc(ast, sp, vi, v), cost)
            return
    # independence from what was done to earlier results: scribble into every mutable container of the value just returned and
    # convert the same data again - a default (or anything else) shared between results, or kept by the memoised converter,
    # shows up in the second image
    if r[0] == OK and out[0] == 'ok' and any(l.startswith('dc_') for l in leaves) and poison(out[1]):
        out3 = outcome_of(pane, T, values.fresh(v))
        res['transitions'] += 1
        m3 = 'raised ' + core.sstr(out3[1], 120) if out3[0] != 'ok' else refmodel.match(r[1], out3[1])
        if m3:
            core.add_violation(res, {'kind': 'second_result_depends_on_first', 'root': root, 'leaves': leaves},
                               f"from_data({values.expr(v)}, {grammar.render(ast)}) a second time, after the containers of the first "
                               f"result were modified, returned {core.srepr(out3[1])}: {m3}", e1.cell_desc(ast, sp, vi, v), cost)
            return
        out = out3       # (the first result is scribbled over: compare the clean second one below)
    # independence from the memo: a freshly built converter gives the same verdict and value
    if sp == (0, 0):
        from pane.convert import make_converter
        out2 = outcome_of(pane, T, values.fresh(v), lambda x: make_converter.inner_f(T).convert(x))
        res['transitions'] += 1
        if out2[0] != out[0] or (out[0] == 'ok' and not values.typed_eq(out[1], out2[1])):
            core.add_violation(res, {'kind': 'fresh_disagrees', 'root': root, 'vkind': vk, 'leaves': leaves},
                               f"{grammar.render(ast)} on {values.expr(v)}: memoised converter -> {out[0]} {core.srepr(out[1])}, "
                               f"freshly built converter -> {out2[0]} {core.srepr(out2[1])}", e1.cell_desc(ast, sp, vi, v), cost)


def expressions(tier):
    return grammar.expressions(tier) + grammar.tagged_expressions()


def run_shard(shard, tier):
    return e1.run_shard(shard, tier, judge, expr_fn=expressions)


def replay(cell):
    return e1.replay(cell, judge)
