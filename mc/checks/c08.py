"""
C08 - error messages are total, deterministic and complete.
Every error tree reachable from the E1 cell space is rendered; an independent walk of the tree says what the text must contain.
"""
from __future__ import annotations

import hashlib
import re as _re
import json
import os
import subprocess
import sys
import typing as t

from mc import core, e1, grammar, values, trees

ID = 'C08'
META = {
    'rule': "cells = (extended grammar) x spellings x (members + single deviations + POOL + dataclass duplicate/missing/extra data); "
            "for every rejected cell: str(error) returns and equals a second call; an independent walk of the tree requires, for "
            "every leaf, its path components in nesting order (quoted or fused 'a.b') before the leaf's expected string, every "
            "missing / unexpected / duplicated name and alias list, the offending value's str(), and the message of every cause. "
            "Hash-seed independence: every shard's rejected cells are re-rendered in two fresh interpreters with PYTHONHASHSEED=1 "
            "and 2 and the texts compared by digest. Non-trivial: tree has at least one composite node; key = tree shape.",
    'assumptions': ["path components are looked up in the quoting used by the renderer ('a' / 'a.b'); values are looked up by str()"],
    'bounds': {'quick': 'extended grammar depth<=2(+3 reduced); seed comparison on all shards', 'thorough': 'thorough grammar'},
}

NCMP = 16      # shards of the seed-comparison pass


def plan(tier, seed):
    return e1.plan(tier, seed) + [{'mode': 'seedcmp', 'i': i, 'n': NCMP} for i in range(NCMP)] + [{'mode': 'docs_stream'}]


def _name(x):
    try:
        return str(x)
    except Exception:  # noqa
        return None


def find_component(text, comp, pos):
    """Earliest position >= pos where `comp` occurs as a (possibly fused) field name."""
    c = _name(comp)
    if c is None:
        return pos          # a name that cannot be printed at all (an int beyond the str-digits limit) cannot be asked for
    best = -1
    for pat in (f"'{c}'", f"'{c}.", f".{c}'", f".{c}."):
        i = text.find(pat, pos)
        if i >= 0 and (best < 0 or i < best):
            best = i
    if best < 0:
        # any other way of naming the component (the statement does not prescribe the quoting): a whole-token occurrence
        m = _re.compile(r'(?<![\w])' + _re.escape(c) + r'(?![\w])').search(text, pos)
        if m:
            best = m.start()
    return best


def cause_lines(cause):
    try:
        return [ln.strip() for ln in ''.join(cause.format_exception_only()).strip().splitlines() if ln.strip()]
    except Exception:  # noqa
        return []


def step(cands, key):
    """Sub-values found under product key `key` in each candidate datum (a failed Dict key is itself a candidate)."""
    nxt = []
    for sub in cands:
        if isinstance(sub, (list, tuple)):
            try:
                nxt.append(sub[int(key)])
            except (ValueError, IndexError, TypeError):
                pass
        elif values.kind(sub) == 'map':
            # (children are keyed by the printed form of the key; an unprintable key is shown as a placeholder: take all such)
            def same(kk):
                return _name(kk) == _name(key) if _name(kk) is not None else 'unprintable' in str(key)
            nxt += [x for kk, x in sub.items() if same(kk)]
            nxt += [kk for kk in sub if same(kk)]
    return nxt


def completeness(tree, text, datum) -> t.Optional[str]:
    """Independent walk: what must be in the text."""
    def walk(node, pos, in_sum, cands):
        n = type(node).__name__
        if n == 'ProductErrorNode':
            for k, ch in node.children.items():
                i = find_component(text, k, pos)
                if i < 0:
                    return f"path component {k!r} does not appear (in nesting order) in the text"
                r = walk(ch, i, False, step(cands, k))
                if r:
                    return r
            for m in node.missing:
                name = m if isinstance(m, str) else '/'.join(m)
                if _name(name) is not None and _name(name) not in text:
                    return f"missing field {name!r} is not named"
            for x in node.extra:
                if _name(x) is not None and _name(x) not in text:
                    return f"unexpected field {core.srepr(x, 60)} is not named"
            # (the statement asks for the expectation of every *leaf*; fused intermediate product nodes drop theirs)
            return None
        if n == 'SumErrorNode':
            # the value the union itself was given must be shown (variants may report a part or a converted form of it)
            if cands and not any(_shown(c, text, pos) for c in cands):
                return (f"offending value of the union ({core.srepr(cands[0], 60)}) is not shown")
            for ch in node.children:
                r = walk(ch, pos, True, cands)
                if r:
                    return r
            return None
        if n == 'DuplicateKeyError':
            if str(node.key) not in text[pos:]:
                return f"duplicated key {node.key!r} is not named"
            for a in node.aliases:
                if str(a) not in text[pos:]:
                    return f"alias {a!r} of duplicated key {node.key!r} is not listed"
            return None
        # leaves
        exp = getattr(node, 'expected', None)
        if exp is not None and text.find(str(exp), pos) < 0:
            return f"expectation {exp!r} of the leaf does not appear after its path"
        if hasattr(node, 'actual') and not in_sum:
            try:
                shown = str(node.actual)
            except Exception:  # noqa: the value cannot be printed at all (e.g. an int beyond the str-digits limit)
                shown = ''
            if shown not in text[pos:]:
                return f"offending value {shown[:60]!r} is not shown"
            # the value AS IT WAS GIVEN: where the datum holds a plain string at this path, that very text must be shown (a
            # converter may normalise a string before parsing it, but the user typed the original)
            if cands and all(type(c) is str for c in cands) and not any(c in text[pos:] for c in cands):
                return f"offending value {cands[0][:60]!r} is not shown as it was given (the text shows {shown[:60]!r})"
        cause = getattr(node, 'cause', None)
        if cause is not None:
            for ln in cause_lines(cause):
                if ln not in text[pos:]:
                    return f"message of the underlying exception ({ln[:80]!r}) is missing"
        if n == 'WrongTypeError' and node.info and str(node.info) not in text:
            return f"additional info {node.info!r} is missing"
        if n == 'ConditionFailedError' and cause is None and str(node.condition) not in text:
            return f"failed condition {node.condition!r} is not named"
        return None
    return walk(tree, 0, False, [datum])


def _shown(c, text, pos):
    try:
        return f"`{c}`" in text[pos:]
    except Exception:  # noqa: unprintable value
        return 'unprintable' in text[pos:]


HUGE = [10 ** 5000, [10 ** 5000], {'a': -10 ** 5000}, (1, 10 ** 5000),       # values whose str() raises (int str-digits limit)
        {10 ** 5000: 1}, {'a': 1, 10 ** 5000: 1, 'zz': 2}, {'k': {10 ** 5000: 1}}, [{-10 ** 5000: 'x'}],    # ... and keys
        # a value whose str() renders another pane error while the outer message is being written
        [1, grammar.NestedRender()], {'a': [1, grammar.NestedRender()]}, {'k': grammar.NestedRender()}, {'a': {'b': grammar.NestedRender()}}]


def _components(node, depth=0):
    """Keys of every product child anywhere below `node` (the path components a message has to name)."""
    out = []
    ch = getattr(node, 'children', None)
    if isinstance(ch, dict):
        for k, c in ch.items():
            out.append(k)
            if depth < 6:
                out.extend(_components(c, depth + 1))
    elif isinstance(ch, (list, tuple)) and depth < 6:
        for c in ch:
            out.extend(_components(c, depth + 1))
    return out


def values_c08(ast, tier):
    return e1.values_for(ast, tier) + HUGE


def render(err):
    try:
        return str(err), None
    except Exception as e:  # noqa
        return None, e


def judge(ctx, ast, sp, T, vi, v):
    from pane.errors import ConvertError
    pane = ctx.pane
    res = ctx.res
    try:
        pane.from_data(values.fresh(v), T)
        return
    except ConvertError as e:
        err = e
    except Exception:  # noqa
        return
    res['evals'] += 1
    res['transitions'] += 2
    res['validated'] += 1
    root = e1.root_of(ast)
    cost = e1.size(ast) * 10 + e1.vsize(v)
    shp = trees.shape(err.tree)
    if '(' in shp:
        res['nontrivial'].add(shp)
    res['outcomes'][type(err.tree).__name__] += 1
    text, exc = render(err)
    desc = f"from_data({values.expr(v)[:100]}, {grammar.render(ast)})"
    if exc is not None:
        core.add_violation(res, {'kind': 'render_raises', 'exc': type(exc).__name__, 'site': core.site_of(exc)},
                           f"{desc}: rendering the error raised {type(exc).__name__}: {core.sstr(exc, 100)}",
                           e1.cell_desc(ast, sp, vi, v), cost)
        return
    text2, _ = render(err)
    if text2 != text:
        core.add_violation(res, {'kind': 'render_not_repeatable', 'root': root},
                           f"{desc}: two renderings of the same error differ", e1.cell_desc(ast, sp, vi, v), cost)
        return
    text3, exc3 = render(err.tree)
    if text3 != text:
        core.add_violation(res, {'kind': 'tree_vs_error_text', 'root': root},
                           f"{desc}: str(error) != str(error.tree)", e1.cell_desc(ast, sp, vi, v), cost)
    problem = completeness(err.tree, text, v)
    if not problem and e1.leaves_of(ast) & {'cond:raises', 'cond:or_raises'} and _re.search(r"condition '(never or )?boom'", text) and 'predicate exploded' not in text:
        # model side: whenever the condition named 'boom' is reported as failed, its predicate raised - the message must say so
        problem = "the condition 'boom' failed because its predicate raised, but the exception's message (predicate exploded) is missing"

    if not problem and isinstance(ast, str) and ast in grammar.DC_SPECS and values.kind(v) == 'map' \
            and 'struct' in grammar.DC_SPECS[ast].get('opts', {}).get('in_format', ['struct']):
        # model-side completeness: names the reference field table says are missing / unexpected / duplicated
        from mc import refmodel
        bound, missing, extra, dups, unspec = refmodel.dc_name_analysis(grammar.DC_SPECS[ast], v)
        if not unspec:
            for nm, what in [(m, 'missing required field') for m in missing] + [(x, 'unexpected key') for x in extra] + \
                    [(dk, 'duplicated key') for dk in dups]:
                if _name(nm) is not None and _name(nm) not in text:
                    problem = f"{what} {nm!r} (per the field table) is not named"
                    break
    if not problem and not isinstance(ast, str) and ast[0] in ('union', 'optional'):
        # compositional completeness: every alternative of a union failed, each for its own reasons - the path components under
        # which the member ALONE reports its failures must all be named in the union's message
        import typing
        for M in (typing.get_args(T) if typing.get_origin(T) is typing.Union else ()):
            try:
                pane.from_data(values.fresh(v), M)
                continue
            except ConvertError as em:
                comps = _components(em.tree)
            except Exception:  # noqa
                continue
            res['transitions'] += 1
            missing_c = [c for c in comps if find_component(text, c, 0) < 0]
            if missing_c:
                problem = f"failing path component {missing_c[0]!r} of the alternative {getattr(M, '__name__', M)!r} is not named"
                break
    if problem:
        core.add_violation(res, {'kind': 'incomplete_text', 'what': problem.split('(')[0].split("'")[0].strip()[:40],
                                 'shape': shp[:30]},
                           f"{desc}: {problem}; text was {text[:300]!r}", e1.cell_desc(ast, sp, vi, v), cost)


# ------------------------------------------------------------------ hash-seed comparison

def digest_pass(i, n, tier):
    """Render every rejected cell of shard (i, n); print {cell-id: sha1(text)} as JSON. Run under a given PYTHONHASHSEED."""
    import warnings
    warnings.simplefilter('ignore')
    pane = core.import_pane()
    from pane.errors import ConvertError
    out = {}
    exprs = grammar.expressions_ext(tier)
    for idx in range(i, len(exprs), n):
        ast = exprs[idx]
        vals = values_c08(ast, tier)
        T = grammar.build(ast, 0, 0)
        for vi, v in enumerate(vals):
            try:
                pane.from_data(values.fresh(v), T)
            except ConvertError as e:
                try:
                    s = str(e)
                except Exception as ex:  # noqa
                    s = f"<raised {type(ex).__name__}>"
                # object addresses (functions in Condition reprs, object()) legitimately differ between processes
                import re
                s = re.sub(r'0x[0-9a-f]+', '0x', s)
                out[f"{idx}:{vi}"] = hashlib.sha1(s.encode('utf-8', 'surrogatepass')).hexdigest()[:16]
            except Exception:  # noqa
                pass
    return out


def run_seedcmp(shard, tier):
    res = core.new_result()
    outs = []
    for seed in ('1', '2'):
        env = dict(os.environ, PYTHONHASHSEED=seed)
        p = subprocess.run([core.PY, '-c',
                            f"import sys, json; sys.path.insert(0, {core.VERIF!r}); sys.dont_write_bytecode=True\n"
                            f"from mc.checks import c08\n"
                            f"json.dump(c08.digest_pass({shard['i']}, {shard['n']}, {tier!r}), sys.stdout)"],
                           env=env, capture_output=True, text=True, timeout=3000, cwd=core.VERIF)
        if p.returncode != 0:
            res['errors'].append(f"digest pass seed {seed} failed: {p.stderr[-1500:]}")
            return res
        outs.append(json.loads(p.stdout))
    a, b = outs
    res['states'] += len(a)
    res['transitions'] += len(a) + len(b)
    res['evals'] += len(a)
    res['validated'] += len(a)
    res['outcomes']['seed_compared'] += len(a)
    exprs = grammar.expressions_ext(tier)
    for key in a:
        if a[key] != b.get(key):
            idx, vi = map(int, key.split(':'))
            ast = exprs[idx]
            v = values_c08(ast, tier)[vi]
            core.add_violation(res, {'kind': 'text_depends_on_hash_seed', 'root': e1.root_of(ast)},
                               f"from_data({values.expr(v)[:100]}, {grammar.render(ast)}): the rendered error differs between "
                               f"interpreters started with PYTHONHASHSEED=1 and 2",
                               {'mode': 'seedcmp', **e1.cell_desc(ast, (0, 0), vi, v)}, e1.size(ast) * 10 + e1.vsize(v))
    return res


def seed_texts(cell):
    """Render one cell under two hash seeds; return the two texts."""
    texts = []
    for seed in ('1', '2'):
        env = dict(os.environ, PYTHONHASHSEED=seed)
        code = (f"import sys, json, warnings; warnings.simplefilter('ignore'); sys.path.insert(0, {core.VERIF!r})\n"
                f"from mc import core, grammar, values\npane = core.import_pane()\n"
                f"cell = json.loads({json.dumps(json.dumps(cell))})\n"
                f"T = grammar.build(cell['ast'], 0, 0)\n"
                f"try:\n    pane.from_data(values.eval_expr(cell['v']), T); print('<accepted>')\n"
                f"except Exception as e:\n    import re; print(re.sub(r'0x[0-9a-f]+', '0x', str(e)))\n")
        p = subprocess.run([core.PY, '-c', code], env=env, capture_output=True, text=True, timeout=600, cwd=core.VERIF)
        texts.append(p.stdout)
    return texts


def run_shard(shard, tier):
    if shard.get('mode') == 'seedcmp':
        return run_seedcmp(shard, tier)
    if shard.get('mode') == 'docs_stream':
        from mc import docs_stream
        res = core.new_result()
        docs_stream.run(core.import_pane(), res, want_text=True)
        return res
    return e1.run_shard(shard, tier, judge, value_fn=values_c08, expr_fn=grammar.expressions_ext)


def replay(cell):
    if cell.get('docs_stream'):
        from mc import docs_stream
        out = docs_stream.replay(core.import_pane(), want_text=True)
        return [v for v in out if v['cell'].get('docs') == cell.get('docs')] or out
    if cell.get('mode') == 'seedcmp':
        a, b = seed_texts(cell)
        if a != b:
            return [{'sig': {'kind': 'text_depends_on_hash_seed', 'root': e1.root_of(cell['ast'])},
                     'msg': f"texts differ:\n--- seed 1\n{a}\n--- seed 2\n{b}", 'cell': cell, 'cost': 0}]
        return []
    return e1.replay(cell, judge, value_fn=values_c08)
