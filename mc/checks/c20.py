"""
C20 - field renaming yields canonical, reversible names.

Exhaustive over ALL snake_case identifiers of 1..W words of 2..3 letters over the
alphabet {a, b, z} (quick W=3: 47 988 names; thorough W=4: 1 727 604 names) x 5 styles
(x 5 second styles), plus all unsplittable shapes over the 1- and 2-word names, plus the
class-level path (class rename= -> into_data keys / from_data / dict(rename=)).
"""
from __future__ import annotations

import itertools

from mc import core

ID = 'C20'
STYLES = ('snake', 'scream', 'kebab', 'camel', 'pascal')
LETTERS = 'abz'
WORDS = [''.join(p) for n in (2, 3) for p in itertools.product(LETTERS, repeat=n)]   # 36 words
# lowercase alphabetic words of >= 2 letters that are also Python (soft) keywords: perfectly good field-name words
KEYWORDS = ['as', 'if', 'in', 'is', 'or', 'and', 'def', 'del', 'for', 'not', 'try', 'class', 'from', 'pass', 'lambda', 'match', 'type', 'none', 'true']

META = {
    'rule': "every snake_case name of 1..W words (2-3 letters over {a,b,z}) x every style: canonical form by an "
            "independent formula, idempotence s(s(x))==s(x), inverse snake(s(x))==x (implies injectivity; an explicit "
            "collision table is also kept per style in the quick tier), composition s2(s1(x))==s2(x) for all 25 pairs; "
            "every malformed shape raises ValueError; class-level rename= emits/accepts exactly the canonical key. "
            "A case is non-trivial if it has >= 2 words or is a malformed shape; distinct key = (law, style, style2, #words/shape).",
    'assumptions': ["alphabet restricted to lowercase ASCII letters {a,b,z}, words of 2-3 letters (the property's own domain: "
                    "words of at least two letters); digits and non-ASCII letters are outside the alphabet"],
    'bounds': {'quick': 'W=3 words (47 988 names) x 5 x 5 styles; 1 332 names x 18 malformed shapes (incl. mixed separator kinds); 1 332 x 5 classes',
               'thorough': 'W=4 words (1 727 604 names) x 5 x 5 styles; same malformed shapes and classes'},
    'design_ref': 'DESIGN.md section 3, C20',
}


def canon(words, style):
    """Independent formula for the canonical spelling."""
    if style == 'snake':
        return '_'.join(words)
    if style == 'scream':
        return '_'.join(w.upper() for w in words)
    if style == 'kebab':
        return '-'.join(words)
    cap = [w[0].upper() + w[1:] for w in words]
    if style == 'camel':
        return words[0] + ''.join(cap[1:])
    if style == 'pascal':
        return ''.join(cap)
    raise ValueError(style)


def plan(tier, seed):
    maxw = 3 if tier == 'quick' else 4
    shards = []
    for nw in range(1, maxw + 1):
        if nw <= 2:
            shards.append({'kind': 'names', 'nw': nw, 'first': None})
        else:
            for w in WORDS:
                shards.append({'kind': 'names', 'nw': nw, 'first': w})
    shards.append({'kind': 'malformed'})
    shards.append({'kind': 'keywords'})
    shards.append({'kind': 'after_prelude'})
    for st in STYLES:
        shards.append({'kind': 'classes', 'style': st})
    return shards


def _names(nw, first):
    if first is None:
        for ws in itertools.product(WORDS, repeat=nw):
            yield ws
    else:
        for ws in itertools.product(WORDS, repeat=nw - 1):
            yield (first,) + ws


def check_name(rename_field, words, res, collide=None):
    """All laws for one name. Returns nothing; records violations in res."""
    x = '_'.join(words)
    nw = len(words)
    styled = {}
    for s in STYLES:
        res['transitions'] += 1
        try:
            y = rename_field(x, s)
        except Exception as e:  # noqa
            core.add_violation(res, {'law': 'canonical', 'style': s, 'nwords': nw, 'exc': type(e).__name__},
                               f"rename_field({x!r}, {s!r}) raised {type(e).__name__}: {e}",
                               {'kind': 'name', 'words': list(words)}, cost=nw)
            continue
        styled[s] = y
        want = canon(words, s)
        res['validated'] += 1
        if y != want:
            core.add_violation(res, {'law': 'canonical', 'style': s, 'nwords': nw},
                               f"rename_field({x!r}, {s!r}) == {y!r}, canonical spelling is {want!r}",
                               {'kind': 'name', 'words': list(words)}, cost=nw)
        if collide is not None:
            prev = collide[s].setdefault(y, x)
            if prev != x:
                core.add_violation(res, {'law': 'injective', 'style': s, 'nwords': nw},
                                   f"{s}: distinct names {prev!r} and {x!r} both become {y!r}",
                                   {'kind': 'name', 'words': list(words), 'other': prev}, cost=nw)
    for s1, y in styled.items():
        for s2 in STYLES:
            res['transitions'] += 1
            try:
                z = rename_field(y, s2)
            except Exception as e:  # noqa
                core.add_violation(res, {'law': 'compose', 'style': s1, 'style2': s2, 'nwords': nw, 'exc': type(e).__name__},
                                   f"rename_field({y!r}, {s2!r}) raised {type(e).__name__}: {e} (from {x!r} via {s1})",
                                   {'kind': 'name', 'words': list(words)}, cost=nw)
                continue
            res['validated'] += 1
            want = canon(words, s2)
            if z != want:
                law = 'idempotent' if s1 == s2 else ('inverse' if s2 == 'snake' else 'compose')
                core.add_violation(res, {'law': law, 'style': s1, 'style2': s2, 'nwords': nw},
                                   f"{s2}({s1}({x!r})) = {s2}({y!r}) == {z!r}, expected {want!r}",
                                   {'kind': 'name', 'words': list(words)}, cost=nw)
    res['states'] += len(STYLES)
    res['evals'] += len(STYLES) * (1 + len(STYLES))


MALFORMED = [
    lambda x: '_' + x, lambda x: x + '_', lambda x: '-' + x, lambda x: x + '-',
    lambda x: x.replace('_', '__', 1) if '_' in x else x + '__' + x,
    lambda x: x.replace('_', '--', 1) if '_' in x else x + '--' + x,
    lambda x: x.replace('_', '_-', 1) if '_' in x else x + '-_' + x,
    lambda x: '__' + x, lambda x: x + '--',
    lambda x: '_', lambda x: '', lambda x: '-_',
    # mixed separator kinds: the defect is in one kind while the other kind is also present
    lambda x: '-' + x + '_' + x, lambda x: x + '_' + x + '-', lambda x: x + '--' + x + '_' + x, lambda x: x + '__' + x + '-' + x,
    lambda x: '_' + x + '-' + x, lambda x: x + '-' + x + '_',
]


def check_malformed(rename_field, words, res):
    x = '_'.join(words)
    for i, f in enumerate(MALFORMED):
        bad = f(x)
        for s in STYLES:
            res['transitions'] += 1
            res['evals'] += 1
            res['validated'] += 1
            try:
                y = rename_field(bad, s)
            except ValueError:
                continue
            except Exception as e:  # noqa
                core.add_violation(res, {'law': 'unsplittable', 'style': s, 'shape': i, 'exc': type(e).__name__},
                                   f"rename_field({bad!r}, {s!r}) raised {type(e).__name__} instead of ValueError",
                                   {'kind': 'malformed', 'words': list(words), 'shape': i}, cost=len(words))
                continue
            core.add_violation(res, {'law': 'unsplittable', 'style': s, 'shape': i},
                               f"rename_field({bad!r}, {s!r}) returned {y!r} instead of raising ValueError",
                               {'kind': 'malformed', 'words': list(words), 'shape': i}, cost=len(words))
        res['states'] += 1
        res['nontrivial'].add(f"malformed/{i}")


def check_class(pane, words, style, res):
    """Class-level path: rename=style -> output key, input key, dict(rename=)."""
    x = '_'.join(words)
    want = canon(words, style)
    cell = {'kind': 'class', 'words': list(words), 'style': style}
    nw = len(words)
    try:
        cls = type('R', (pane.PaneBase,), {'__annotations__': {x: int}}, rename=style)
        inst = cls(**{x: 3})
        res['transitions'] += 4
        res['evals'] += 4
        d = inst.into_data()
        if d != {want: 3}:
            core.add_violation(res, {'law': 'class_out', 'style': style, 'nwords': nw},
                               f"class rename={style!r}, field {x!r}: into_data gave {d!r}, expected key {want!r}", cell, cost=nw)
        back = cls.from_data({want: 3})
        if back != inst:
            core.add_violation(res, {'law': 'class_in', 'style': style, 'nwords': nw},
                               f"class rename={style!r}, field {x!r}: from_data({{{want!r}: 3}}) != instance", cell, cost=nw)
        d3 = inst.dict(set_only=True, rename=style)
        if d3 != {want: 3}:
            core.add_violation(res, {'law': 'class_dict_set_only', 'style': style, 'nwords': nw},
                               f"dict(set_only=True, rename={style!r}) of field {x!r} gave {d3!r}, expected key {want!r}", cell, cost=nw)
        d2 = inst.dict(rename=style)
        if d2 != {want: 3}:
            core.add_violation(res, {'law': 'class_dict', 'style': style, 'nwords': nw},
                               f"dict(rename={style!r}) of field {x!r} gave {d2!r}, expected key {want!r}", cell, cost=nw)
        # class with in_rename only: every styled form listed must be accepted
        cls2 = type('R2', (pane.PaneBase,), {'__annotations__': {x: int}}, in_rename=STYLES)
        for s in STYLES:
            res['transitions'] += 1
            res['evals'] += 1
            if cls2.from_data({canon(words, s): 4}) != cls2(**{x: 4}):
                core.add_violation(res, {'law': 'class_in_multi', 'style': s, 'nwords': nw},
                                   f"in_rename=all styles, field {x!r}: key {canon(words, s)!r} not bound", cell, cost=nw)
        # dict(rename=<another style>) of an instance of a class that has its own style: the style asked for wins
        for other in STYLES:
            if other == style:
                continue
            res['transitions'] += 1
            res['evals'] += 1
            d4 = inst.dict(rename=other)
            if d4 != {canon(words, other): 3}:
                core.add_violation(res, {'law': 'class_dict_other_style', 'style': style, 'nwords': nw},
                                   f"class rename={style!r}, field {x!r}: dict(rename={other!r}) gave {d4!r}, expected key {canon(words, other)!r}", cell, cost=nw)
                break
        # a field name that cannot be split into words (trailing / leading / doubled separator) is refused by the class path too
        for badname in (x + '_', '_' + x, x.replace('_', '__', 1) if '_' in x else x + '__' + x):
            res['transitions'] += 1
            res['evals'] += 1
            try:
                bad_cls = type('RB', (pane.PaneBase,), {'__annotations__': {badname: int}}, rename=style)
                try:
                    shown = bad_cls(**{badname: 1}).into_data()
                except Exception as e4:  # noqa
                    shown = f"{type(e4).__name__}"
                core.add_violation(res, {'law': 'class_malformed_name_accepted', 'style': style, 'nwords': nw},
                                   f"class rename={style!r} with the field name {badname!r} was created (into_data -> {shown!r}); the name cannot be split into words: ValueError expected",
                                   cell, cost=nw)
                break
            except ValueError:
                pass
        # a field that overrides its OUTPUT name only: it is still read under the class style's canonical name
        cls3 = type('R3', (pane.PaneBase,), {'__annotations__': {x: int}, x: pane.field(out_name='login')}, rename=style)
        res['transitions'] += 2
        res['evals'] += 2
        try:
            got3 = getattr(cls3.from_data({want: 5}), x)
        except Exception as e3:  # noqa
            got3 = f"{type(e3).__name__}: {core.sstr(e3, 80)}"
        if got3 != 5:
            core.add_violation(res, {'law': 'class_in_with_out_name', 'style': style, 'nwords': nw},
                               f"class rename={style!r}, field {x!r} = field(out_name='login'): the canonical key {want!r} was not bound ({got3!r})", cell, cost=nw)
        elif cls3(**{x: 5}).into_data() != {'login': 5}:
            core.add_violation(res, {'law': 'class_out_name', 'style': style, 'nwords': nw},
                               f"class rename={style!r}, field {x!r} = field(out_name='login'): into_data gave {cls3(**{x: 5}).into_data()!r}", cell, cost=nw)
        res['validated'] += 4 + len(STYLES)
    except Exception as e:  # noqa
        core.add_violation(res, {'law': 'class', 'style': style, 'nwords': nw, 'exc': type(e).__name__},
                           f"class path for field {x!r} rename={style!r} raised {type(e).__name__}: {e}", cell, cost=nw)
    res['states'] += 1
    res['nontrivial'].add(f"class/{style}/{nw}")


def run_shard(shard, tier):
    pane = core.import_pane()
    from pane.field import rename_field
    res = core.new_result()
    kind = shard['kind']
    if kind == 'names':
        nw = shard['nw']
        collide = {s: {} for s in STYLES} if (tier == 'quick' or nw <= 3) else None
        n = 0
        for ws in _names(nw, shard['first']):
            check_name(rename_field, ws, res, collide)
            n += 1
        for s in STYLES:
            for s2 in STYLES:
                if nw >= 2:
                    res['nontrivial'].add(f"laws/{s}/{s2}/{nw}")
        res['outcomes'][f'names_{nw}w'] += n
        if shard['first'] in (None, WORDS[0]):
            ws = next(iter(_names(nw, shard['first'])))
            res['samples'].append({'name': '_'.join(ws), **{s: rename_field('_'.join(ws), s) for s in STYLES}})
    elif kind == 'malformed':
        for nw in (1, 2):
            for ws in itertools.product(WORDS, repeat=nw):
                check_malformed(rename_field, ws, res)
        res['outcomes']['malformed'] += res['states']
        res['samples'].append({'malformed': [f('ab_ba') for f in MALFORMED]})
    elif kind == 'keywords':
        # the same laws and the same malformed shapes over words that are Python keywords (mixed with ordinary words)
        pool = KEYWORDS + WORDS[:3]
        n = 0
        for nw in (1, 2):
            for ws in itertools.product(pool, repeat=nw):
                check_name(rename_field, ws, res, None)
                check_malformed(rename_field, ws, res)
                n += 1
        for a, b, c in itertools.product(KEYWORDS[:8], WORDS[:2], KEYWORDS[8:14]):
            check_name(rename_field, (a, b, c), res, None)
            n += 1
        res['outcomes']['keyword_names'] += n
        res['nontrivial'].add('keywords')
    elif kind == 'after_prelude':
        # state carried from call to call: BEFORE the names of the domain are looked at, the function is called on names
        # outside it that it accepts all the same (words of ONE letter, and whatever it turns them into, in every style); the
        # laws over the domain must hold exactly as in a fresh process
        seen = 0
        for nw in (1, 2, 3):
            for ws in itertools.product('abz', repeat=nw):
                todo = ['_'.join(ws)]
                for s in STYLES:
                    try:
                        todo.append(rename_field('_'.join(ws), s))
                    except ValueError:
                        pass
                for nm in todo:
                    for s in STYLES:
                        try:
                            rename_field(nm, s)
                            seen += 1
                        except ValueError:
                            pass
        res['outcomes']['prelude_calls'] += seen
        n = 0
        for nw in (1, 2):
            for ws in itertools.product(WORDS, repeat=nw):
                check_name(rename_field, ws, res, None)
                n += 1
        res['outcomes']['names_after_prelude'] += n
        res['nontrivial'].add('after_prelude')
    elif kind == 'classes':
        import warnings
        warnings.simplefilter('ignore')
        n = 0
        for nw in (1, 2):
            for ws in itertools.product(WORDS, repeat=nw):
                check_class(pane, ws, shard['style'], res)
                n += 1
                if n % 500 == 0:
                    from pane.convert import make_converter
                    make_converter.cache.clear()
        res['outcomes']['classes'] += n
    return res


def replay(cell):
    pane = core.import_pane()
    from pane.field import rename_field
    res = core.new_result()
    ws = tuple(cell['words'])
    if cell['kind'] == 'name':
        check_name(rename_field, ws, res, None)
        if 'other' in cell:   # injectivity witness: re-run with the colliding partner
            collide = {s: {} for s in STYLES}
            check_name(rename_field, tuple(cell['other'].split('_')), res, collide)
            check_name(rename_field, ws, res, collide)
    elif cell['kind'] == 'malformed':
        check_malformed(rename_field, ws, res)
    elif cell['kind'] == 'class':
        check_class(pane, ws, cell['style'], res)
    return [v for lst in res['violations'].values() for v in lst]
