"""
C13 - conditions restrict exactly by their predicate.
Condition expressions over the stock conditions and combinators x inner types x boundary grid, against a reference
evaluator that uses Python's own arithmetic / len / shape semantics.
"""
from __future__ import annotations

import itertools
import math
import typing as t
import warnings

from mc import core, grammar, values

ID = 'C13'
META = {
    'rule': "condition expressions = 63 atoms (val_range and len_range over all 16 (min,max) pairs each, Positive/Negative/NonNegative/"
            "NonPositive/Finite/Empty/NonEmpty, shape and broadcastable for 5 shapes incl. a list spelling, a raising predicate, a user "
            "predicate, a non-bool predicate) closed once (thorough: twice) under &, |, ~, Condition.all, Condition.any, plus 2-3 "
            "conditions on one Annotated; x inner types int/float/str/List[int]/Set[int]/Dict[str,int]/numpy.ndarray and element-level "
            "placements List[Annotated] / Dict[str, Annotated] / Optional[Annotated] / dataclass field; x the complete boundary grid of each "
            "inner type. Oracle: accept <=> inner type accepts and the reference evaluator says True; False -> ConditionFailedError "
            "without cause, raising predicate -> with cause; accepted value typed-equal to the inner conversion; into_data ignores "
            "conditions. Every condition object is evaluated on all values in sequence (history independence). "
            "Non-trivial: combinator expression or boundary value; key = (condition head, inner type, placement, verdict).",
    'assumptions': ["reference evaluator: and/all short-circuit left to right, or/any likewise, an exception anywhere = failed condition with cause"],
    'bounds': {'quick': 'atoms + one combinator level (~1 100 expressions) x 7 inner types x 5 placements x grid',
               'thorough': 'two combinator levels over a reduced atom set'},
}

NUMS = [None, 0, 5, 2.5]
LENS = [None, 0, 1, 2]
SHAPES = [[], [2], [2, 2], ['list', 2, 2], [1, 2]]       # ['list', ...] = spelled as a list instead of a tuple


def atoms():
    out = []
    for mn in NUMS:
        for mx in NUMS:
            out.append(['val_range', mn, mx])
    for mn in LENS:
        for mx in LENS:
            out.append(['len_range', mn, mx])
    out += [['pos'], ['neg'], ['nonneg'], ['nonpos'], ['finite'], ['empty'], ['nonempty']]
    # one-sided ranges over ordered NON-numeric values, and integer bounds no float can hold
    out += [['val_range', 'ab', None], ['val_range', None, 'ab'], ['val_range', ['date', '2020-01-01'], None],
            ['val_range', None, ['date', '2020-01-01']], ['val_range', 2 ** 53 + 1, None], ['val_range', None, 2 ** 53 + 1],
            ['val_range', -(2 ** 53) - 1, 2 ** 53 + 1]]
    for s in SHAPES:
        out.append(['shape', s])
        out.append(['bcast', s])
    out += [['raises'], ['even'], ['nonbool'], ['even_named_small'], ['even_named_big']]
    out += [['raises', n] for n in RAISERS]
    return out


RAISERS = ['RuntimeError', 'AssertionError', 'OSError', 'StopIteration', 'KeyError', 'Custom', 'ZeroDivisionError', 'MemoryError']


class CustomPredicateError(Exception):
    pass


def _raiser_class(name):
    import builtins
    return CustomPredicateError if name == 'Custom' else getattr(builtins, name)


CORE_ATOMS = [['raises', 'RuntimeError'], ['val_range', 0, 5], ['val_range', None, 2.5], ['val_range', 5, 0], ['len_range', 1, 2], ['len_range', None, 0],
              ['pos'], ['nonneg'], ['neg'], ['finite'], ['empty'], ['nonempty'], ['raises'], ['even'], ['shape', [2]], ['bcast', [2, 2]],
              ['nonbool']]
TRI_ATOMS = [['pos'], ['val_range', None, 5], ['raises'], ['nonempty'], ['even'], ['finite']]


def combos(base, tri):
    out = []
    for a in base:
        out.append(['not', a])
    for a in base:
        for b in base:
            out.append(['and', a, b])
            out.append(['or', a, b])
    for a, b, c in itertools.product(tri, repeat=3):
        out.append(['all', a, b, c])
        out.append(['any', a, b, c])
    for a in tri:
        out.append(['all', a])
        out.append(['any', a])
    out.append(['all'])
    out.append(['any'])
    return out


def expressions(tier):
    at = atoms()
    out = list(at) + combos(CORE_ATOMS, TRI_ATOMS)
    # several conditions on one Annotated (bundled): ['multi', a, b(, c)]
    for a in TRI_ATOMS:
        for b in TRI_ATOMS:
            out.append(['multi', a, b])
    # distinct predicates under one name, together and in both orders, bundled and combined
    SN = [['even'], ['even_named_small'], ['even_named_big']]
    for a in SN:
        for b in SN:
            if a != b:
                out.append(['multi', a, b])
                out.append(['and', a, b])
                out.append(['or', a, b])
                out.append(['all', a, b, ['pos']])
    out.append(['multi', ['even'], ['even_named_small'], ['even_named_big']])
    out.append(['multi', ['pos'], ['finite'], ['val_range', None, 5]])
    out.append(['multi', ['raises'], ['pos'], ['neg']])
    out.append(['multi', ['neg'], ['raises'], ['pos']])
    if tier == 'thorough':
        d1 = combos(TRI_ATOMS[:4], TRI_ATOMS[:3])
        small = [x for x in d1 if x[0] in ('not', 'and', 'or')][:40] + [x for x in d1 if x[0] in ('all', 'any')][:20]
        out += combos(small + TRI_ATOMS[:3], (small[:3] + TRI_ATOMS[:2]))
    seen, uniq = set(), []
    for e in out:
        k = repr(e)
        if k not in seen:
            seen.add(k)
            uniq.append(e)
    return uniq


# ------------------------------------------------------------------ building real conditions

def shape_obj(s):
    return list(s[1:]) if s and s[0] == 'list' else tuple(s)


def _bound(b):
    """Bounds are kept JSON-able in the expression: ['date', iso] stands for the date."""
    if isinstance(b, list) and b and b[0] == 'date':
        import datetime
        return datetime.date.fromisoformat(b[1])
    return b


def build_cond(A, e):
    h = e[0]
    if h == 'val_range':
        return A.val_range(min=_bound(e[1]), max=_bound(e[2]))
    if h == 'len_range':
        return A.len_range(min=e[1], max=e[2])
    if h in ('pos', 'neg', 'nonneg', 'nonpos', 'finite', 'empty', 'nonempty'):
        return {'pos': A.Positive, 'neg': A.Negative, 'nonneg': A.NonNegative, 'nonpos': A.NonPositive, 'finite': A.Finite,
                'empty': A.Empty, 'nonempty': A.NonEmpty}[h]
    if h == 'shape':
        return A.shape(shape_obj(e[1]))
    if h == 'bcast':
        return A.broadcastable(shape_obj(e[1]))
    if h == 'raises':
        exc = _raiser_class(e[1]) if len(e) > 1 else LookupError

        def boom(v, _exc=exc):
            raise _exc('predicate exploded')
        return A.Condition(boom, 'boom')
    if h == 'even':
        return A.Condition(lambda v: v % 2 == 0, 'even')
    if h == 'nonbool':
        return A.Condition(lambda v: [v] if v else [], 'truthy')
    # two further predicates that carry the SAME NAME as 'even' (names are labels for messages, not identities)
    if h == 'even_named_small':
        return A.Condition(lambda v: v < 2, 'even')
    if h == 'even_named_big':
        return A.Condition(lambda v: v > 1, 'even')
    if h == 'not':
        return ~build_cond(A, e[1])
    if h == 'and':
        return build_cond(A, e[1]) & build_cond(A, e[2])
    if h == 'or':
        return build_cond(A, e[1]) | build_cond(A, e[2])
    if h == 'all':
        return A.Condition.all(*[build_cond(A, x) for x in e[1:]])
    if h == 'any':
        return A.Condition.any(*[build_cond(A, x) for x in e[1:]])
    raise KeyError(h)


# ------------------------------------------------------------------ reference evaluator

RAISE = 'raise'


def ceval(e, x):
    """True / False / RAISE, with Python's own operators on the converted value."""
    try:
        return bool(_ev(e, x))
    except Exception:  # noqa
        return RAISE


def _ev(e, x):
    h = e[0]
    if h == 'val_range':
        ok = True
        if e[1] is not None:
            ok = ok and bool(x >= _bound(e[1]))
        if ok and e[2] is not None:
            ok = ok and bool(x <= _bound(e[2]))
        return ok
    if h == 'len_range':
        ok = True
        if e[1] is not None:
            ok = ok and len(x) >= e[1]
        if ok and e[2] is not None:
            ok = ok and len(x) <= e[2]
        return ok
    if h == 'pos':
        return x > 0
    if h == 'neg':
        return x < 0
    if h == 'nonneg':
        return x >= 0
    if h == 'nonpos':
        return x <= 0
    if h == 'finite':
        # (every int is a finite number, also one too large for a float - math.isfinite would overflow on it)
        import decimal
        import fractions
        if isinstance(x, (int, fractions.Fraction)) and not isinstance(x, bool):
            return True           # exact numbers are finite whatever their size
        if isinstance(x, decimal.Decimal):
            return x.is_finite()
        return bool(math.isfinite(x))
    if h == 'empty':
        return len(x) == 0
    if h == 'nonempty':
        return len(x) != 0
    if h == 'shape':
        return tuple(x.shape) == tuple(shape_obj(e[1]))
    if h == 'bcast':
        import numpy
        try:
            numpy.broadcast_shapes(tuple(x.shape), tuple(shape_obj(e[1])))
            return True
        except ValueError:
            return False
    if h == 'raises':
        raise LookupError('predicate exploded')
    if h == 'even':
        return x % 2 == 0
    if h == 'nonbool':
        return [x] if x else []
    if h == 'even_named_small':
        return x < 2
    if h == 'even_named_big':
        return x > 1
    if h == 'not':
        return not _ev(e[1], x)
    if h in ('and', 'all', 'multi'):
        for sub in e[1:]:
            if not _ev(sub, x):
                return False
        return True
    if h in ('or', 'any'):
        for sub in e[1:]:
            if _ev(sub, x):
                return True
        return False
    raise KeyError(h)


# ------------------------------------------------------------------ inner types and grids

_IE: t.List[t.Any] = []


def _int_enum():
    if not _IE:
        import enum
        _IE.append(enum.IntEnum('BigIntEnum', {'ONE': 1, 'HUGE': 10 ** 400}))
    return _IE[0]


def inner_types():
    import numpy
    return {
        'int': (int, [-1, 0, 1, 4, 5, 6, 10 ** 20, -10 ** 20, 10 ** 400,      # (10**400: beyond any float, still a finite number)
                      2 ** 53, 2 ** 53 + 1, 2 ** 53 + 2, -(2 ** 53) - 1, -(2 ** 53) - 2]),
        # instances of int SUBCLASSES are ints too: a declared subclass, and an IntEnum with a member beyond the float range
        'sub_int': (grammar.SubInt, [-1, 0, 5, 10 ** 400, 2 ** 53 + 1]),
        'int_enum': (_int_enum(), [1, 10 ** 400, 2]),
        # exact and decimal numbers beyond the float range are still finite numbers; Decimal has its own infinities
        'fraction': (__import__('fractions').Fraction, ['1/3', 5, 10 ** 400, '-1/7']),
        'decimal': (__import__('decimal').Decimal, ['1.5', '1e400', '-1e400', 'Infinity', 'NaN', 5]),
        'date': (__import__('datetime').date, ['2019-12-31', '2020-01-01', '2024-05-01', 'x']),
        'float': (float, [-1, 0, 1, 4, 5, 6, 2.5, -0.0, 5.0, values.INF, -values.INF, values.NAN, 1e300, 4.999999999]),
        'str': (str, ['', 'a', 'ab', 'abc', 'b']),
        'list_int': (t.List[int], [[], [1], [1, 2], [1, 2, 3], [0]]),
        'set_int': (t.Set[int], [[], [1], [1, 2], [1, 2, 3], [1, 1]]),
        'dict_str_int': (t.Dict[str, int], [{}, {'a': 1}, {'a': 1, 'b': 2}, {'a': 1, 'b': 2, 'c': 3}]),
        'ndarray': (numpy.ndarray, [5, [1], [1, 2], [1, 2, 3], [[1, 2]], [[1, 2], [3, 4]], [], [[1], [2]]]),
        'any': (t.Any, [0, 5, 'ab', [1, 2], None, {}]),
    }


WRONG = [None, 'x', [None], {'k': None}, 2.5, b'b']      # data the inner type may refuse: the condition must then be irrelevant

PLACEMENTS = ['top', 'list_elem', 'dict_value', 'optional', 'dc_field']
CUSTOM_PLACEMENTS = ['custom_top', 'custom_list_elem', 'custom_class_field']


def placements_for(iname):
    if iname in ('int', 'float', 'list_int'):
        return PLACEMENTS + CUSTOM_PLACEMENTS
    return PLACEMENTS if iname == 'any' else ['top', 'list_elem']


def plan(tier, seed):
    n = len(expressions(tier))
    k = 48
    # + one shard that meets the same-named predicates one after the other in ONE process (a name is not an identity: whatever
    #   is memoised per annotated type - by pane or by typing - must not hand the second one the first one's predicate)
    return [{'i': i, 'n': k} for i in range(min(k, n))] + [{'samename': True}]


def make_type(pane, inner, conds):
    return grammar.pin(t.Annotated[(inner, *conds)])


def place(pane, AT, placement):
    if placement == 'top':
        return AT, (lambda v: v), (lambda r: r)
    if placement == 'list_elem':
        return grammar.pin(t.List[AT]), (lambda v: [v, v]), (lambda r: r[1])
    if placement == 'dict_value':
        return grammar.pin(t.Dict[str, AT]), (lambda v: {'k': v}), (lambda r: r['k'])
    if placement == 'optional':
        return grammar.pin(t.Optional[AT]), (lambda v: v), (lambda r: r)
    if placement == 'dc_field':
        C = grammar.pin(type('CondHolder', (pane.PaneBase,), {'__annotations__': {'f': AT}, '__module__': 'mc.generated'}))
        return C, (lambda v: {'f': v}), (lambda r: r.f)
    if placement == 'custom_top':          # the call carries custom= handlers that cover the annotated type's inner conversion
        return AT, (lambda v: v), (lambda r: r)
    if placement == 'custom_list_elem':
        return grammar.pin(t.List[AT]), (lambda v: [v, v]), (lambda r: r[1])
    if placement == 'custom_class_field':  # ... or the enclosing class does
        C = grammar.pin(type('CondHolderC', (pane.PaneBase,), {'__annotations__': {'f': AT}, '__module__': 'mc.generated'}, custom=_times10(pane)))
        return C, (lambda v: {'f': v}), (lambda r: r.f)
    raise KeyError(placement)


_T10: t.List[t.Any] = []


def _times10(pane):
    """custom handlers for int and float: the value times ten (and back) - the condition must see what THEY produce."""
    if not _T10:
        from pane.converters import Converter
        from pane.errors import ParseInterrupt, WrongTypeError

        class Times10(Converter):
            def __init__(self, ty):
                self.ty = ty

            def expected(self, plural=False):
                return f"{self.ty.__name__} (x10)"

            def try_convert(self, val):
                if type(val) in (int, float) and type(val) is not bool:
                    return self.ty(val * 10)
                raise ParseInterrupt()

            def collect_errors(self, val):
                return None if type(val) in (int, float) else WrongTypeError(self.expected(), val)

            def into_data(self, val):
                return val / 10 if self.ty is float else val // 10
        _T10.append({int: Times10(int), float: Times10(float)})
    return _T10[0]


def find_cond_leaf(tree):
    from mc import trees
    for path, leaf in trees.leaves(tree):
        if type(leaf).__name__ == 'ConditionFailedError':
            return leaf
    return None


def eval_cell(pane, res, ei, e, iname, placement, tier, only_vi=None):
    import pane.annotations as A
    from pane.errors import ConvertError
    inner, grid = inner_types()[iname]
    conds = [build_cond(A, x) for x in e[1:]] if e[0] == 'multi' else [build_cond(A, e)]
    for c in conds:
        grammar.pin(c)
    AT = make_type(pane, inner, conds)
    T, wrap, unwrap = place(pane, AT, placement)
    data = grid + (WRONG if placement == 'top' else WRONG[:2])
    kw = {'custom': _times10(pane)} if placement in ('custom_top', 'custom_list_elem') else {}
    kw_inner = {'custom': _times10(pane)} if placement.startswith('custom') else {}
    for vi, v in enumerate(data):
        if only_vi is not None and vi != only_vi:
            continue
        cell = {'ei': ei, 'e': e, 'inner': iname, 'placement': placement, 'vi': vi}
        res['states'] += 1
        # inner conversion alone
        try:
            x = pane.from_data(values.fresh(v), inner, **kw_inner)
            inner_ok = True
        except ConvertError:
            inner_ok, x = False, None
        except Exception:  # noqa
            continue
        want = ceval(e, x) if inner_ok else None
        if placement == 'optional' and v is None:
            continue
        try:
            out = ('ok', unwrap(pane.from_data(wrap(values.fresh(v)), T, **kw)))
        except ConvertError as err:
            out = ('rej', err)
        except Exception as err:  # noqa
            out = ('raw', err)
        res['evals'] += 1
        res['transitions'] += 2
        res['validated'] += 1
        verdict = 'inner_rejects' if not inner_ok else {True: 'holds', False: 'fails', RAISE: 'raises'}[want]
        res['outcomes'][f"{verdict}/{out[0]}"] += 1
        if e[0] not in ('pos', 'neg', 'nonneg', 'nonpos') or placement != 'top':
            res['nontrivial'].add(f"{e[0]}|{iname}|{placement}|{verdict}")
        desc = f"Annotated[{iname}, {e}] ({placement}) on {values.expr(v)[:40]}"
        sig = {'head': e[0], 'inner': iname, 'placement': placement}
        cost = len(repr(e)) + (0 if placement == 'top' else 5)
        if out[0] == 'raw':
            core.add_violation(res, {'kind': 'foreign_exception', 'exc': type(out[1]).__name__, 'site': core.site_of(out[1]), 'head': e[0]},
                               f"{desc}: {type(out[1]).__name__} escaped: {core.sstr(out[1], 100)}", cell, cost)
            continue
        should_accept = inner_ok and want is True
        if should_accept and out[0] != 'ok':
            core.add_violation(res, {'kind': 'rejects_although_condition_holds', **sig},
                               f"{desc}: rejected, but the inner type accepts and the predicate is true on {core.srepr(x, 40)}", cell, cost)
            continue
        if not should_accept and out[0] == 'ok':
            core.add_violation(res, {'kind': 'accepts_although_condition_fails', 'why': verdict, **sig},
                               f"{desc}: accepted ({core.srepr(out[1], 40)}), but {verdict.replace('_', ' ')}", cell, cost)
            continue
        if out[0] == 'ok':
            if not values.typed_eq(out[1], x):
                core.add_violation(res, {'kind': 'accepted_value_changed', **sig},
                                   f"{desc}: returned {core.srepr(out[1], 40)}, the inner conversion alone gives {core.srepr(x, 40)}", cell, cost)
                continue
            try:
                d1, d2 = pane.into_data(out[1], AT, **kw_inner), pane.into_data(out[1], inner, **kw_inner)
                same = values.typed_eq(d1, d2) or repr(d1) == repr(d2)
            except Exception:  # noqa: a serialisation failure of the inner type itself is C05's business, not a condition effect
                same = True
                d1 = d2 = None
            if not same:
                core.add_violation(res, {'kind': 'serialisation_sees_condition', **sig},
                                   f"{desc}: into_data with the condition gives {core.srepr(d1, 40)}, without it {core.srepr(d2, 40)}", cell, cost)
        elif inner_ok and placement in ('top', 'list_elem', 'dict_value', 'dc_field', 'custom_top', 'custom_list_elem', 'custom_class_field'):
            leaf = find_cond_leaf(out[1].tree)
            if leaf is None:
                core.add_violation(res, {'kind': 'no_condition_leaf', **sig},
                                   f"{desc}: rejected without a ConditionFailedError leaf ({core.srepr(out[1].tree, 80)})", cell, cost)
            elif (leaf.cause is not None) != (want == RAISE):
                core.add_violation(res, {'kind': 'cause_mismatch', 'why': verdict, **sig},
                                   f"{desc}: predicate {'raised' if want == RAISE else 'returned false'} but the error leaf "
                                   f"{'carries no cause' if leaf.cause is None else 'carries a cause'}", cell, cost)


def run_shard(shard, tier):
    pane = core.import_pane()
    warnings.simplefilter('ignore')
    res = core.new_result()
    exprs = expressions(tier)
    from pane.convert import make_converter
    if shard.get('samename'):
        idx = [i for i, e in enumerate(exprs) if e in (['even'], ['even_named_small'], ['even_named_big'])]
        todo = idx + idx[::-1]
        shard = {'i': 0, 'n': 1}
    else:
        todo = range(shard['i'], len(exprs), shard['n'])
    done: t.List[t.Any] = []
    for ei in todo:
        e = exprs[ei]
        if shard.get('n') == 1:
            # (same-name shard) a violation here may need the conditions met before it: carry them in the cell for the replay
            before = {id(v) for lst in res['violations'].values() for v in lst}
        for iname in inner_types():
            for placement in placements_for(iname):
                try:
                    eval_cell(pane, res, ei, e, iname, placement, tier)
                except Exception as err:  # noqa
                    core.add_violation(res, {'kind': 'oracle_exception', 'exc': type(err).__name__, 'head': e[0]},
                                       f"cell {e} / {iname} / {placement} raised {type(err).__name__}: {core.sstr(err)}",
                                       {'ei': ei, 'e': e, 'inner': iname, 'placement': placement, 'vi': None}, 50)
        if shard.get('n') == 1:
            for lst in res['violations'].values():
                for v in lst:
                    if id(v) not in before:
                        v['cell']['prelude'] = list(done)
            done.append([ei, e])
            continue
        if ei % 200 < shard['n']:
            make_converter.cache.clear()
    if shard['i'] == 0 and todo.__class__ is range:
        res['samples'].append({'condition': exprs[40], 'inner': 'float', 'placement': 'list_elem', 'grid': [values.expr(v) for v in inner_types()['float'][1]]})
        res['extra']['condition_expressions'] = len(exprs)
    return res


def replay(cell):
    pane = core.import_pane()
    warnings.simplefilter('ignore')
    res = core.new_result()
    # replay the whole grid for this condition object: history dependence needs the earlier evaluations too
    for pei, pe in cell.get('prelude') or []:
        scratch = core.new_result()
        for iname in inner_types():
            for placement in placements_for(iname):
                try:
                    eval_cell(pane, scratch, pei, pe, iname, placement, 'quick')
                except Exception:  # noqa
                    pass
    eval_cell(pane, res, cell['ei'], cell['e'], cell['inner'], cell['placement'], 'quick')
    out = [v for lst in res['violations'].values() for v in lst]
    return [v for v in out if v['cell'].get('vi') == cell.get('vi')] or out
