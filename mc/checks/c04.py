"""
C04 - only ConvertError escapes a conversion of interchange data; well-formed types always build, unsupported ones fail
with TypeError / UnsupportedAnnotation before any data is looked at.
"""
from __future__ import annotations

import io
import json
import types
import typing as t
import warnings

from mc import core, e1, grammar, values, refmodel

ID = 'C04'
META = {
    'rule': "cells = (extended grammar incl. tagged unions, HasConverter, ValueOrList, Range, ndarray, user conditions) x "
            "spellings x (members + every single substitution of an ADVERSARIAL atom or key at every position + POOL + "
            "adversarial pool); each cell runs from_data, convert, and for JSON/YAML-representable data from_json/from_yaml "
            "(dataclass roots also Cls.from_data / Cls.from_obj); allowed outcomes: return or ConvertError. Builder part: "
            "every grammar expression builds; every entry of a list of unsupported types raises TypeError/UnsupportedAnnotation "
            "from make_converter with no data. Raiser part: predicates / __post_init__ hooks raising each of 9 exception classes "
            "in 7 embedding contexts. Non-trivial: data reaches below the root converter; key = (root, entry point, outcome, value kind).",
    'assumptions': ["adversarial atoms come from a fixed list (DESIGN.md C04)", "top-level values are interchange values "
                    "(from_data documents TypeError for anything else)"],
    'bounds': {'quick': 'extended grammar depth<=2(+3 reduced); 1 adversarial substitution', 'thorough': 'thorough grammar; 1 substitution on 5 members'},
}

ADV_ATOMS: t.List[t.Any] = [
    None, True, 2.5, [], {}, [1], {'a': 1}, '(', 'a{4294967296}', '1/0', 'NaN', '१', '\x00', '\ud800',
    '9' * 5000, 10 ** 5000, -10 ** 5000, '2023-13-45', '25:61:61', '2023-09-05T25:00', 10 ** 400, -10 ** 400, values.INF, values.NAN,
    b'\xff\xfe', [[]], [{}], {'': {}}, complex(values.INF, 0), '', ' ', '1e999', '-', '0x10', '1_0',
]
ADV_KEYS: t.List[t.Any] = [1, 10 ** 5000, None, (1, 2), 1.5, True, '', '\ud800', b'k', ('a', ('b',)), -10 ** 5000,
                           # strings no naming style can split into words (a helper that renames an unknown key must not choke)
                           '_q', 'q_', 'q--q', '-', '__q__', 'Q q', '\xb5m']
ADV_POOL: t.List[t.Any] = ADV_ATOMS + [
    {1: 1}, {None: None}, {(1, 2): 3}, {True: 1, 1.0: 2}, [[[[[]]]]], {'x': [1]}, {'x': {'y': 1}}, {'t': [1], 'c': {}},
    {'t': {'a': 1}, 'c': {}}, {'x': None}, {'x': 1.5}, {'x': [1]}, {'x': {'a': 1}}, {'x': True}, {'v1': 1, 'v2': 2}, {'t': 'v1'},
    {'t': 'v1', 'c': {}, 'extra': 1}, [(1, 2)], [[1], 2], ((1, 2),), {('a',): 1}, [[1, 2], [3]], [[1, 'a']],
]


def mutate_adv(v, _top=True):
    k = values.kind(v)
    if k == 'seq':
        ty = type(v)
        lst = list(v)
        for i in range(len(lst)):
            for m in mutate_adv(lst[i], False):
                yield ty(lst[:i] + [m] + lst[i + 1:])
    elif k == 'map':
        items = list(v.items())
        for i, (kk, x) in enumerate(items):
            for m in mutate_adv(x, False):
                yield dict(items[:i] + [(kk, m)] + items[i + 1:])
            for nk in ADV_KEYS:
                try:
                    if nk not in v:
                        yield dict(items[:i] + [(nk, x)] + items[i + 1:])
                except TypeError:
                    pass
        for nk in ADV_KEYS[:5] + ADV_KEYS[11:]:
            yield dict(items + [(nk, 0)])
            yield dict(items + [(nk, [[]])])      # an odd key whose value is refused as well
    else:
        for a in ADV_ATOMS:
            yield a


def has_map(v):
    if isinstance(v, dict):
        return True
    return isinstance(v, (list, tuple)) and any(has_map(x) for x in v)


def all_bare(v):
    if isinstance(v, dict):
        try:
            return values.BareMapping({k: all_bare(x) for k, x in v.items()})
        except TypeError:
            return v
    if isinstance(v, (list, tuple)):
        return type(v)(all_bare(x) for x in v)
    return v


_VC: t.Dict[str, t.List[t.Any]] = {}


def values_adv(ast, tier):
    key = tier + repr(ast)
    r = _VC.get(key)
    if r is None:
        mem = refmodel.members(ast)
        out = list(mem)
        near = []
        for m in mem[:(2 if tier == 'quick' else 5)]:
            near.extend(mutate_adv(m))
        near = values.dedupe(near)
        cap = 120 if tier == 'quick' else 400
        if len(near) > cap:
            step = len(near) / cap
            near = [near[int(i * step)] for i in range(cap)]
        # every mapping at every depth replaced by the least a Mapping can be (no .copy() / .pop() / .get override ...)
        bare = [all_bare(m) for m in (mem + near[:40]) if has_map(m)]
        big = [b for m in mem[:2] for b in values.inflate(m, 70)]
        out += near + bare + big + values.POOL + ADV_POOL
        r = values.dedupe(out)
        if len(_VC) > 3000:
            _VC.clear()
        _VC[key] = r
    return r


def plan(tier, seed):
    return e1.plan(tier, seed) + [{'kind': 'builder'}, {'kind': 'raisers'}]


def _json_able(v):
    try:
        s = json.dumps(v, allow_nan=True)
    except Exception:
        return None
    return s if len(s) < 20000 else None


def classify(fn, *a, **kw):
    from pane.errors import ConvertError
    try:
        fn(*a, **kw)
        return 'ok', None
    except ConvertError:
        return 'ConvertError', None
    except Exception as e:  # noqa
        return type(e).__name__, e


def judge(ctx, ast, sp, T, vi, v):
    pane = ctx.pane
    res = ctx.res
    root = e1.root_of(ast)
    vk = values.kind(v)
    entries = [('from_data', lambda: pane.from_data(values.fresh(v), T)),
               ('convert', lambda: pane.convert(values.fresh(v), T))]
    if hasattr(T, '__pane_info__'):
        entries.append(('Cls.from_data', lambda: T.from_data(values.fresh(v))))
        entries.append(('Cls.from_obj', lambda: T.from_obj(values.fresh(v))))
    if sp == (0, 0):
        js = _json_able(v)
        if js is not None:
            entries.append(('from_json', lambda: pane.from_json(io.StringIO(js), T)))
            if not any(ord(c) > 0xd7ff and ord(c) < 0xe000 for c in js) and len(js) < 400 and '\\ud8' not in js:
                import yaml
                try:
                    ys = yaml.safe_dump(json.loads(js))
                except Exception:
                    ys = None
                if ys is not None:
                    entries.append(('from_yaml', lambda: pane.from_yaml(io.StringIO(ys), T)))
    for name, fn in entries:
        out, exc = classify(fn)
        res['evals'] += 1
        res['transitions'] += 1
        res['validated'] += 1
        res['outcomes'][f"{name}/{out if out in ('ok', 'ConvertError') else 'ESCAPE'}"] += 1
        if not isinstance(ast, str) or vk in ('seq', 'map'):
            res['nontrivial'].add(f"{root}|{name}|{out}|{vk}")
        if out not in ('ok', 'ConvertError'):
            # yaml/json loaders may themselves refuse odd documents: not pane's conversion
            if name in ('from_json', 'from_yaml') and type(exc).__module__.split('.')[0] in ('json', 'yaml'):
                continue
            core.add_violation(res, {'kind': 'escape', 'exc': out, 'site': core.site_of(exc)},
                               f"{name}({values.expr(v)[:120]}, {grammar.render(ast)}) raised {out}: {core.sstr(exc, 160)}",
                               e1.cell_desc(ast, sp, vi, v), e1.size(ast) * 10 + e1.vsize(v))


ODD_DOCUMENTS = ['', '\n', '# only a comment\n', '---\n', '--- \n...\n', 'null', '~', '[]', '{}', '""']


def per_type(ctx, ast, sp, T):
    """Every expression of the grammar is a documented type: building its converter must not fail."""
    from pane.convert import make_converter
    pane = ctx.pane
    if sp == (0, 0) and e1.size(ast) <= 2:
        # texts that hold no document at all, or an empty one: the readers still either return or raise ConvertError
        for doc in ODD_DOCUMENTS:
            for name, fn in (('from_yaml', lambda: pane.from_yaml(io.StringIO(doc), T)), ('from_yaml_all', lambda: pane.from_yaml_all(io.StringIO(doc), T))) + \
                    ((('from_json', lambda: pane.from_json(io.StringIO(doc), T)),) if doc in ('null', '[]', '{}', '""') else ()):
                out, exc = classify(fn)
                ctx.res['evals'] += 1
                ctx.res['transitions'] += 1
                if out not in ('ok', 'ConvertError') and type(exc).__module__.split('.')[0] not in ('json', 'yaml'):
                    core.add_violation(ctx.res, {'kind': 'escape', 'exc': out, 'site': core.site_of(exc)},
                                       f"{name}(<the text {doc!r}>, {grammar.render(ast)}) raised {out}: {core.sstr(exc, 160)}",
                                       e1.cell_desc(ast, sp, -1, None), e1.size(ast) * 10)
    try:
        make_converter(T)
        ctx.res['transitions'] += 1
    except Exception as e:  # noqa
        core.add_violation(ctx.res, {'kind': 'build_fails', 'root': e1.root_of(ast), 'exc': type(e).__name__,
                                     'leaves': sorted(e1.leaves_of(ast))},
                           f"make_converter({grammar.render(ast)} [{T!r}]) raised {type(e).__name__}: {core.sstr(e)}",
                           e1.cell_desc(ast, sp, -1, None), e1.size(ast))


# ------------------------------------------------------------------ builder part

def unsupported_types():
    import enum
    import collections.abc
    import pane
    from pane.annotations import Tagged

    class Fl(enum.Flag):
        A = 1
        B = 2

    class EUnhash(enum.Enum):
        A = [1]

    class EObj(enum.Enum):
        A = object()

    class Plain:
        pass

    def dc(nm, ann):
        return type(nm, (pane.PaneBase,), {'__annotations__': ann, '__module__': 'mc.generated'})

    V1 = dc('BV1', {'x': t.Literal['a']})
    V1.x = 'a'
    V1b = type('BV1b', (pane.PaneBase,), {'__annotations__': {'x': t.Literal['a'], 'y': int}, 'x': 'a', 'y': 1})
    V1c = type('BV1c', (pane.PaneBase,), {'__annotations__': {'x': t.Literal['a'], 'z': int}, 'x': 'a', 'z': 1})
    NoTag = type('NoTag', (pane.PaneBase,), {'__annotations__': {'y': int}, 'y': 1})
    out = [
        ('forward reference string', 'SomeName'),
        ('ForwardRef', t.ForwardRef('SomeName')),
        ('Flag enum', Fl),
        ('typing.Callable', t.Callable[[int], int]),
        ('typing.Type[int]', t.Type[int]),
        ('typing.ClassVar[int]', t.ClassVar[int]),
        ('enum with unhashable value', EUnhash),
        ('enum with non-interchange value', EObj),
        ('Pattern[int]', t.Pattern[int]),  # type: ignore
        ('Tagged on a non-union', t.Annotated[int, Tagged('x')]),
        ('duplicate tag values', t.Annotated[t.Union[V1b, V1c], Tagged('x')]),
        ('member without the tag attribute', t.Annotated[t.Union[V1b, NoTag], Tagged('x')]),
        ('unknown annotation object', t.Annotated[int, 'text']),
        ('abstract collection without concrete default', collections.abc.Collection[int]),
        ('typing.Iterable', t.Iterable[int]),
        ('plain class', Plain),
        ('object', object),
        ('list literal as tuple type', None),   # placeholder, skipped
    ]
    out = [o for o in out if o[1] is not None]
    bad_fields = [('plain class', Plain), ('object', object), ('unknown annotation', t.Annotated[int, 'text']),
                  ('Callable', t.Callable[[int], int])]
    for nm, bt in bad_fields:
        C = dc('BadField', {'a': int, 'b': bt})
        out.append((f"dataclass with field of unsupported type ({nm})", C))
        out.append((f"List[dataclass with field of unsupported type ({nm})]", t.List[C]))
        out.append((f"Union[int, dataclass with unsupported field ({nm})]", t.Union[int, C]))
        out.append((f"Dict[str, ...] of it ({nm})", t.Dict[str, C]))
        out.append((f"struct literal of it ({nm})", {'k': C}))
        Outer = dc('Outer', {'inner': C})
        out.append((f"dataclass nesting it ({nm})", Outer))
        out.append((f"Optional field of it ({nm})", dc('Outer2', {'inner': t.Optional[C]})))
    return out


def run_builder(res):
    from pane.convert import make_converter
    from pane.errors import UnsupportedAnnotation
    items = unsupported_types()
    for i, (label, ty) in enumerate(items):
        res['states'] += 1
        res['evals'] += 1
        res['transitions'] += 1
        res['validated'] += 1
        cell = {'kind': 'builder', 'index': i, 'label': label}
        try:
            make_converter(ty)
        except (TypeError, UnsupportedAnnotation):
            res['outcomes']['builder/refused'] += 1
            res['nontrivial'].add(f"builder|{label}")
            continue
        except Exception as e:  # noqa
            core.add_violation(res, {'kind': 'builder_wrong_exception', 'label': label, 'exc': type(e).__name__},
                               f"make_converter({label}) raised {type(e).__name__}: {core.sstr(e)} "
                               f"(must be TypeError or UnsupportedAnnotation)", cell, 1)
            continue
        core.add_violation(res, {'kind': 'builder_accepts_unsupported', 'label': label},
                           f"make_converter({label}) built a converter for an unsupported type (failure is deferred to data time)",
                           cell, 1)
    res['samples'].append({'builder_items': [lbl for lbl, _ in items][:6]})


# ------------------------------------------------------------------ raiser part

EXCS = ['ValueError', 'TypeError', 'KeyError', 'AttributeError', 'ZeroDivisionError', 'AssertionError', 'Exception',
        'LookupError', 'OverflowError', 'RuntimeError', 'StopIteration', 'RecursionError', 'UnicodeDecodeError_like']


def raiser_cells():
    for exc in EXCS:
        for hook in ('predicate', 'post_init', 'post_init_tuple', 'predicate_nested_any', 'enum_key'):
            for ctxn in ('top', 'list', 'tuple', 'dict_value', 'union_first', 'union_last', 'optional', 'dc_field', 'struct'):
                yield {'kind': 'raiser', 'exc': exc, 'hook': hook, 'ctx': ctxn}


def _exc_class(name):
    import builtins
    if name == 'UnicodeDecodeError_like':
        class Custom(Exception):
            def __str__(self):
                return 'custom exception'
        return Custom
    return getattr(builtins, name)


def run_raiser(pane, cell, res):
    from pane.annotations import Condition
    exc = _exc_class(cell['exc'])

    def boom(*a):
        raise exc('hook exploded')
    hook = cell['hook']
    good = 5
    if hook in ('predicate', 'predicate_nested_any'):
        inner = int if hook == 'predicate' else t.Any
        T0 = t.Annotated[inner, Condition(boom, 'boom')]
    elif hook in ('post_init', 'post_init_tuple'):
        T0 = type('RaisePost', (pane.PaneBase,), {'__annotations__': {'a': int}, '__post_init__': lambda self: boom(),
                                                  '__module__': 'mc.generated'}, in_format=('struct', 'tuple'))
        good = {'a': 1} if hook == 'post_init' else [1]
    else:
        # __eq__/__hash__ of an enum-like lookup is not user code; use a condition combined with all/any/not instead
        c = Condition(boom, 'boom')
        T0 = t.Annotated[int, (~c) | c, c & c]
    grammar.pin(T0)
    ctxn = cell['ctx']
    T, v = {
        'top': lambda: (T0, good),
        'list': lambda: (t.List[T0], [good, good]),
        'tuple': lambda: (t.Tuple[int, T0], [1, good]),
        'dict_value': lambda: (t.Dict[str, T0], {'k': good}),
        'union_first': lambda: (t.Union[T0, str], good),
        'union_last': lambda: (t.Union[str, T0], good),
        'optional': lambda: (t.Optional[T0], good),
        'dc_field': lambda: (type('Holder', (pane.PaneBase,), {'__annotations__': {'f': T0}, '__module__': 'mc.generated'}), {'f': good}),
        'struct': lambda: ({'f': T0}, {'f': good}),
    }[ctxn]()
    grammar.pin(T)
    for name, fn in (('from_data', lambda: pane.from_data(values.fresh(v), T)), ('convert', lambda: pane.convert(values.fresh(v), T))):
        out, e = classify(fn)
        res['evals'] += 1
        res['transitions'] += 1
        res['validated'] += 1
        res['outcomes'][f"raiser/{out if out in ('ok', 'ConvertError') else 'ESCAPE'}"] += 1
        res['nontrivial'].add(f"raiser|{cell['hook']}|{cell['ctx']}|{out}")
        if out != 'ConvertError' and not (out == 'ok' and ctxn in ('union_first', 'union_last') and False):
            if out == 'ok':
                core.add_violation(res, {'kind': 'raiser_accepted', 'hook': hook, 'ctx': ctxn, 'entry': name},
                                   f"{name} with a {hook} hook raising {cell['exc']} in context {ctxn} returned a value",
                                   cell, 1)
            else:
                core.add_violation(res, {'kind': 'escape', 'exc': out, 'site': core.site_of(e), 'hook': hook},
                                   f"{name} with a {hook} hook raising {cell['exc']} in context {ctxn}: {out} escaped: {core.sstr(e)}",
                                   cell, 1)
    res['states'] += 1


def run_shard(shard, tier):
    kind = shard.get('kind')
    if kind is None:
        return e1.run_shard(shard, tier, judge, per_type=per_type, value_fn=values_adv, expr_fn=grammar.expressions_ext)
    pane = core.import_pane()
    warnings.simplefilter('ignore')
    res = core.new_result()
    if kind == 'builder':
        run_builder(res)
    else:
        for cell in raiser_cells():
            try:
                run_raiser(pane, cell, res)
            except Exception as e:  # noqa
                core.add_violation(res, {'kind': 'oracle_exception', 'exc': type(e).__name__, 'hook': cell['hook'], 'ctx': cell['ctx']},
                                   f"raiser cell {cell} raised {type(e).__name__}: {core.sstr(e)}", cell, 1)
        res['samples'].append(next(iter(raiser_cells())))
    return res


def replay(cell):
    kind = cell.get('kind')
    if kind is None:
        return e1.replay(cell, judge, per_type=per_type, value_fn=values_adv)
    pane = core.import_pane()
    warnings.simplefilter('ignore')
    res = core.new_result()
    if kind == 'builder':
        run_builder(res)
        return [v for lst in res['violations'].values() for v in lst if v['cell'].get('label') == cell['label']]
    run_raiser(pane, cell, res)
    return [v for lst in res['violations'].values() for v in lst]
