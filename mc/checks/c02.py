"""
C02 - strictness: no coercion across value kinds, in every embedding context.
Full Cartesian product kind(value) x kind(target) x context with a literal FORBIDDEN relation transcribed from the statement.
"""
from __future__ import annotations

import typing as t
import warnings

from mc import core, grammar, values

ID = 'C02'
META = {
    'rule': "full product of 45 data representatives (18 kinds incl. integral floats, digit / 'true' / ISO-date strings, str "
            "subclass instances, empty containers, lists of pairs) x 44 target types (all scalar kinds, numpy scalar types, enums, literals, scalar "
            "subclasses, every container kind, struct literal, struct-only and tuple-layout dataclasses, Optional) x 19 embedding "
            "contexts (thorough: all ordered pairs of contexts), through five call modes (plain, custom={int: stock}, from_yaml, from_json, dataclass constructor); a pair forbidden by the statement must raise ConvertError, in a "
            "union context the datum must come back as itself through its own-kind member, and the lossless widenings int->float->complex "
            "must succeed with the exact widened value. Non-trivial: forbidden or widening cell in a non-top context; key = (value kind, target, context, verdict).",
    'assumptions': ["bool->number and int 0/1->bool cells are UNSPEC (Python bool is an int); str -> Decimal/Fraction/date/time/datetime/Pattern/path "
                    "are the documented serialised forms, not coercions"],
    'bounds': {'quick': '45 x 44 x (19 + nested) cells x call modes', 'thorough': '45 x 44 x (19 + all ordered pairs) cells x call modes'},
}

# ------------------------------------------------------------------ data representatives

DATA: t.List[t.Tuple[str, str]] = [      # (kind, expression)
    ('none', 'None'), ('bool', 'True'), ('bool', 'False'),
    ('int', '0'), ('int', '1'), ('int', '7'), ('int', '-3'), ('int', '10**20'),
    ('float', '1.5'), ('float', '2.0'), ('float', '0.0'), ('float', 'inf'), ('float', 'nan'), ('float', '1.0'),
    ('complex', 'complex(1, 2)'), ('complex', 'complex(2, 0)'), ('complex', 'complex(1, 0)'),
    ('str', "'abc'"), ('str', "'12'"), ('str', "'1.5'"), ('str', "'true'"), ('str', "'2023-09-05'"), ('str', "''"),
    ('str', "'ab'"), ('str', "SubStr('xy')"), ('str', "'a'"),
    ('bytes', "b'ab'"), ('bytes', "b'12'"), ('bytes', "bytearray(b'ab')"), ('bytes', "b''"), ('bytes', "b'a'"), ('bytes', "bytearray(b'a')"),
    ('seq', '[1, 2]'), ('seq', '(1, 2)'), ('seq', '[]'), ('seq', "['a', 'b']"), ('seq', "[['a', 1]]"), ('seq', "[('k', 1)]"),
    ('seq', '[1]'), ('seq', "('a', 'b')"),
    ('map', "{'a': 1}"), ('map', '{}'), ('map', "{'k': 1}"), ('map', "{0: 'a', 1: 'b'}"), ('map', "{'a': 'x', 'b': 'y'}"),
]

# ------------------------------------------------------------------ targets: (ast, accepted kinds, kind-exact?)

TARGETS: t.List[t.Tuple[t.Any, t.Set[str]]] = [
    ('none', {'none'}), ('bool', {'bool'}), ('int', {'int'}), ('float', {'float', 'int'}), ('complex', {'complex', 'float', 'int'}),
    ('str', {'str'}), ('bytes', {'bytes'}), ('bytearray', {'bytes'}),
    ('decimal', {'int', 'float', 'str'}), ('fraction', {'int', 'float', 'str'}),
    ('date', {'str'}), ('time', {'str'}), ('datetime', {'str'}), ('pattern', {'str'}), ('pattern_bytes', {'bytes'}),
    ('purepath', {'str'}),
    ('enum_int', {'int'}), ('enum_str', {'str'}), ('lit_str', {'str'}), ('lit_mixed', {'int', 'str', 'none'}), ('lit_long', {'int', 'bool', 'str', 'none'}),
    ('sub_int', {'int'}), ('sub_str', {'str'}), ('sub_float', {'float', 'int'}),
    (['list', 'int'], {'seq'}), (['list', 'str'], {'seq'}), (['list', 'any'], {'seq'}), (['tuplevar', 'int'], {'seq'}),
    (['tuple', 'int', 'int'], {'seq'}), (['tuple', 'str', 'str'], {'seq'}), (['set', 'str'], {'seq'}), ('bare_list', {'seq'}),
    (['dict', 'str', 'int'], {'map'}), (['dict', 'any', 'any'], {'map'}), (['struct', ['k', 'int']], {'map'}),
    ('dc_struct', {'map'}), ('dc_strs', {'map', 'seq'}), ('dc_both', {'map', 'seq'}),
    (['optional', 'int'], {'int', 'none'}), (['deque', 'str'], {'seq'}), (['counter', 'str'], {'map'}),
    # numpy scalar types as targets (the array add-on maps them onto the Python kinds)
    ('np_int64', {'int'}), ('np_float64', {'float', 'int'}), ('np_bool', {'bool'}), ('np_str', {'str'}),
]
NUMBERS = {'int', 'float', 'complex'}


def verdict(vkind, v, ast, accepted):
    """'forbidden' | 'widen' | 'unspec' | 'free'"""
    if vkind in accepted:
        if ast in ('float', 'sub_float') and vkind == 'int':
            return 'widen'
        if ast == 'complex' and vkind in ('int', 'float'):
            return 'widen'
        return 'free'
    if vkind == 'bool' and (accepted & NUMBERS or ast in ('decimal', 'fraction')):
        return 'unspec'            # Python bool is an int
    if ast == 'bool' and vkind == 'int' and v in (0, 1):
        return 'unspec'
    # (Literal[1, 'a', None]: the int 1 - a float or bool that merely equals it is forbidden like for any int target)
    if ast in ('enum_int',) and vkind in ('bool', 'float', 'complex'):
        # an int-valued enum converts through int: a float or complex is never an int (firm); a bool is an int (UNSPEC)
        return 'unspec' if vkind == 'bool' else 'forbidden'
    return 'forbidden'


OWN = {'none': type(None), 'bool': bool, 'int': int, 'float': float, 'complex': complex, 'str': str, 'bytes': None,
       'seq': None, 'map': t.Dict[t.Any, t.Any]}


def own_type(v):
    k = values.kind(v)
    if k == 'bytes':
        return bytes
    if k == 'bytearray':
        return bytearray
    if k == 'seq':
        return t.List[t.Any] if isinstance(v, list) else t.Tuple[t.Any, ...]
    if k == 'map':
        return t.Dict[t.Any, t.Any]
    return OWN[k]


# ------------------------------------------------------------------ contexts: (name, wrap_type(T, v), wrap_value(v), unwrap(result))

def _dc(pane, T, tuple_layout):
    opts = {'in_format': ('tuple', 'struct')} if tuple_layout else {}
    return grammar.pin(type('Ctx', (pane.PaneBase,), {'__annotations__': {'f': T}, '__module__': 'mc.generated'}, **opts))


def _dc_after_noinit(pane, T):
    """Tuple-layout class whose first declared field is init=False (set by the class itself); f is the first positional one."""
    ns = {'__annotations__': {'pad': t.Any, 'f': T}, 'pad': pane.field(init=False, exclude=True, compare=False, repr=False),
          '__post_init__': lambda self: object.__setattr__(self, 'pad', 'pad'), '__module__': 'mc.generated'}
    return grammar.pin(type('CtxNoinit', (pane.PaneBase,), ns, in_format=('tuple', 'struct')))


def _dc_default(pane, T):
    """Struct-layout class whose field has a default: an explicit wrong-kind value must not be treated as 'omitted'."""
    ns = {'__annotations__': {'f': T, 'g': int}, 'f': pane.field(default=None), 'g': 0, '__module__': 'mc.generated'}
    return grammar.pin(type('CtxDefault', (pane.PaneBase,), ns))


def contexts(pane):
    def hashable(v):
        try:
            hash(v)
            return True
        except TypeError:
            return False
    return [
        ('top', lambda T, v: T, lambda v: v, lambda r: r, None),
        ('list_elem', lambda T, v: t.List[T], lambda v: [v], lambda r: r[0], None),
        ('tuple_slot', lambda T, v: t.Tuple[int, T], lambda v: [1, v], lambda r: r[1], None),
        ('variadic_elem', lambda T, v: t.Tuple[T, ...], lambda v: (v, v), lambda r: r[1], None),
        ('dict_value', lambda T, v: t.Dict[str, T], lambda v: {'k': v}, lambda r: r['k'], None),
        ('dict_key', lambda T, v: t.Dict[T, int], lambda v: {v: 1}, lambda r: next(iter(r)), hashable),
        ('struct_field', lambda T, v: {'f': T}, lambda v: {'f': v}, lambda r: r['f'], None),
        ('union_first', lambda T, v: t.Union[T, own_type(v)], lambda v: v, lambda r: r, None),
        ('union_last', lambda T, v: t.Union[own_type(v), T], lambda v: v, lambda r: r, None),
        ('optional', lambda T, v: t.Optional[T], lambda v: v, lambda r: r, lambda v: v is not None),
        ('dc_field_by_name', lambda T, v: _dc(pane, T, False), lambda v: {'f': v}, lambda r: r.f, None),
        ('dc_field_by_position', lambda T, v: _dc(pane, T, True), lambda v: [v], lambda r: r.f, None),
        ('set_elem', lambda T, v: t.FrozenSet[T], lambda v: [v], lambda r: next(iter(r)), hashable),
        # the count of a Counter is an int whatever the key type: only meaningful for the target `int`
        ('counter_count', lambda T, v: t.Counter[str], lambda v: {'k': v}, lambda r: r['k'], None),
        ('dc_field_with_default', lambda T, v: _dc_default(pane, T), lambda v: {'f': v}, lambda r: r.f, None),
        ('dc_position_after_noinit_field', lambda T, v: _dc_after_noinit(pane, T), lambda v: [v], lambda r: r.f, None),
        # a condition that always holds restricts nothing - and lets nothing else in (None in particular)
        ('annotated_true', lambda T, v: t.Annotated[T, _true_cond()], lambda v: v, lambda r: r, None),
        ('annotated_true_in_list', lambda T, v: t.List[t.Annotated[T, _true_cond()]], lambda v: [v], lambda r: r[0], None),
        # a class that carries a (stock) converter table for int: strictness of every other type is not its business
        ('dc_field_class_custom_int', lambda T, v: _dc_custom(pane, T), lambda v: {'f': v}, lambda r: r.f, None),
    ]


_TC: t.List[t.Any] = []


def _true_cond():
    if not _TC:
        from pane.annotations import Condition
        _TC.append(grammar.pin(Condition(lambda x: True, 'anything')))
    return _TC[0]


def _int_table():
    """custom={int: <pane's own int converter>}: a handler table that changes nothing for int and concerns no other type."""
    from pane.convert import make_converter
    return {int: make_converter(int)}


def _dc_custom(pane, T):
    return grammar.pin(type('CtxCustom', (pane.PaneBase,), {'__annotations__': {'f': T}, '__module__': 'mc.generated'}, custom=_int_table()))


def plan(tier, seed):
    n = len(DATA)
    return [{'d': i} for i in range(n)]


_T_CACHE: t.Dict[str, t.Any] = {}


def build_target(ast):
    if isinstance(ast, str) and ast.startswith('np_'):
        import numpy
        return {'np_int64': numpy.int64, 'np_float64': numpy.float64, 'np_bool': numpy.bool_, 'np_str': numpy.str_}[ast]
    return grammar.build(ast)


def eval_cell(pane, ctxs, di, ti, cpath, res, mode='plain'):
    """One cell: datum DATA[di], target TARGETS[ti], nested contexts cpath (outermost first)."""
    from pane.errors import ConvertError
    vkind, vexpr = DATA[di]
    v = values.eval_expr(vexpr)
    ast, accepted = TARGETS[ti]
    if any(ctxs[ci][0] == 'counter_count' for ci in cpath) and (ast != 'int' or ctxs[cpath[-1]][0] != 'counter_count'):
        return
    vd = verdict(vkind, v, ast if isinstance(ast, str) else ast, accepted)
    T = build_target(ast)
    ty, data = T, v
    unwraps = []
    for pos in range(len(cpath) - 1, -1, -1):
        ci = cpath[pos]
        name, wt, wv, un, cond = ctxs[ci]
        if cond is not None and not cond(data):      # (data is the datum as wrapped so far; innermost: v itself)
            return
        try:
            ty = wt(ty, data if name.startswith('union') else v)
        except TypeError:
            return       # the context cannot be spelled for this type (e.g. a dict literal inside typing.Union)
        grammar.pin(ty)
        data = wv(data)
        unwraps.append(un)
    names = [ctxs[ci][0] for ci in cpath]
    in_union = any(n.startswith('union') for n in names)
    if mode == 'construct':
        # the constructor converts its arguments like from_data: an argument of another kind that merely EQUALS the field's
        # default (1.0 for `f: int = 1`, 0 for `f: bool = False`) is still of another kind
        cand = next((c for c in {'int': [0, 1, 2], 'bool': [False, True], 'float': [0.0, 1.0, 2.0], 'complex': [complex(1, 0), complex(2, 0)],
                                 'np_int64': [0, 1], 'sub_int': [0, 1]}.get(ast if isinstance(ast, str) else '', [])
                     if isinstance(v, (int, float, complex)) and c == v and type(c) is not type(v)), None)
        if cand is None or vd != 'forbidden' or names != ['top']:
            return
        Cls = grammar.pin(type('CtxDef', (pane.PaneBase,), {'__annotations__': {'f': T}, 'f': cand, '__module__': 'mc.generated'}))
        res['states'] += 1
        res['evals'] += 1
        res['transitions'] += 1
        res['validated'] += 1
        try:
            got = Cls(f=v).f
        except ConvertError:
            return
        except Exception as e:  # noqa
            got = e
        core.add_violation(res, {'kind': 'constructor_accepts_other_kind_equal_to_default', 'vkind': vkind, 'target': grammar.render(ast)},
                           f"Cls(f={v!r}) for `f: {grammar.render(ast)} = {cand!r}` gave {got!r} ({type(got).__name__}): a {vkind} was accepted as {grammar.render(ast)}",
                           {'d': di, 't': ti, 'ctx': list(cpath), 'mode': mode}, 3)
        return
    res['states'] += 1
    cell = {'d': di, 't': ti, 'ctx': list(cpath), 'mode': mode}
    desc = f"from_data({values.expr(data)[:80]}, {grammar.render(ast)} in context {'/'.join(names)}{', custom={int: <stock int converter>}' if mode != 'plain' else ''})"
    if mode in ('yaml', 'json'):
        # the same datum arriving through a file reader (only data the format carries faithfully)
        import io as _io
        import json as _json
        import yaml as _yaml
        try:
            text = _yaml.safe_dump(data) if mode == 'yaml' else _json.dumps(data)
            back = _yaml.safe_load(text) if mode == 'yaml' else _json.loads(text)
        except Exception:  # noqa
            return
        if not values.typed_eq(back, data):
            return
        desc = f"from_{mode}(<{text.strip()[:60]!r}>, {grammar.render(ast)} in context {'/'.join(names)})"
    try:
        if mode in ('yaml', 'json'):
            out = (pane.from_yaml if mode == 'yaml' else pane.from_json)(_io.StringIO(text), ty)
        else:
            out = pane.from_data(values.fresh(data), ty) if mode == 'plain' else pane.from_data(values.fresh(data), ty, custom=_int_table())
        got = 'ok'
    except ConvertError:
        got = 'rej'
        out = None
    except Exception as e:  # noqa: C04's finding; counted
        got = 'raw'
        out = e
    res['evals'] += 1
    res['transitions'] += 1
    res['outcomes'][f"{vd}/{got}"] += 1
    if vd == 'unspec':
        res['unspec']['bool_int_overlap'] += 1
        return
    res['validated'] += 1
    if names != ['top'] and vd in ('forbidden', 'widen'):
        res['nontrivial'].add(f"{vkind}|{grammar.render(ast)}|{'/'.join(names)}|{vd}")
    cost = len(cpath) * 10 + len(vexpr)
    sig_base = {'vkind': vkind, 'target': grammar.render(ast), 'ctx': names[-1] if len(names) == 1 else '/'.join(names), 'mode': mode}
    if vd == 'forbidden':
        if in_union and not names[-1].startswith('union'):
            # the union is an OUTER context: its own-kind member is that of the wrapped datum, which says nothing about v itself
            res['outcomes']['outer_union_not_judged'] += 1
            return
        if in_union:
            # only the innermost union matters: the datum must come back as itself through its own-kind member
            if got != 'ok':
                if got == 'rej':
                    core.add_violation(res, {'kind': 'union_lost_own_member', **sig_base},
                                       f"{desc}: rejected although the datum's own kind is a member", cell, cost)
                return
            r = out
            try:
                for un in reversed(unwraps):
                    r = un(r)
            except Exception:  # noqa
                r = out
            if not values.typed_eq(r, v) and not (isinstance(v, (list, tuple, dict)) and r == v) \
                    and not (type(v) is grammar.SubStr and r == v) and not (isinstance(v, bytearray) or isinstance(r, bytearray)):
                core.add_violation(res, {'kind': 'coerced_in_union', **sig_base},
                                   f"{desc} returned {core.srepr(r, 80)}: the datum was coerced through the forbidden member "
                                   f"instead of coming back as itself", cell, cost)
            return
        if got == 'ok':
            r = out
            try:
                for un in reversed(unwraps):
                    r = un(r)
            except Exception:  # noqa
                pass
            core.add_violation(res, {'kind': 'coercion_accepted', **sig_base},
                               f"{desc} returned {core.srepr(r, 80)}: a {vkind} was accepted as {grammar.render(ast)}", cell, cost)
        return
    if vd == 'widen' and not in_union:
        want = {'float': float, 'sub_float': grammar.SubFloat, 'complex': complex}[ast]
        if got != 'ok':
            if got == 'rej' and not (vkind == 'int' and abs(v) > 10 ** 300):
                core.add_violation(res, {'kind': 'widening_refused', **sig_base},
                                   f"{desc}: the lossless widening {vkind} -> {ast} was refused", cell, cost)
            return
        r = out
        try:
            for un in reversed(unwraps):
                r = un(r)
        except Exception:  # noqa
            return
        if type(r) is not want or not (r == v or (r != r and v != v)):
            core.add_violation(res, {'kind': 'widening_wrong_value', **sig_base},
                               f"{desc} returned {core.srepr(r, 60)} ({type(r).__name__}), expected {want.__name__}({v!r})", cell, cost)


def run_shard(shard, tier):
    pane = core.import_pane()
    warnings.simplefilter('ignore')
    res = core.new_result()
    ctxs = contexts(pane)
    di = shard['d']
    paths = [(c,) for c in range(len(ctxs))]
    if tier == 'thorough':
        paths += [(a, b) for a in range(len(ctxs)) for b in range(len(ctxs))]
    else:
        # quick: every context one level deeper inside a list and a dict value as well
        paths += [(1, c) for c in range(1, len(ctxs))] + [(4, c) for c in range(1, len(ctxs))] + [(10, c) for c in (1, 2, 4, 7, 8)]
    for ti in range(len(TARGETS)):
        for p in paths:
            # 'custom': the same call with custom={int: stock int converter} (single contexts, and inside list / dict value)
            for mode in (('plain', 'custom', 'yaml', 'json') + (('construct',) if p == (0,) else ()) if len(p) == 1 or p[0] in (1, 4) and tier == 'thorough' else ('plain',)):
                try:
                    eval_cell(pane, ctxs, di, ti, p, res, mode)
                except Exception as e:  # noqa
                    core.add_violation(res, {'kind': 'oracle_exception', 'exc': type(e).__name__},
                                       f"cell d={di} t={ti} ctx={p} mode={mode} raised {type(e).__name__}: {core.sstr(e)}",
                                       {'d': di, 't': ti, 'ctx': list(p), 'mode': mode}, 5)
    if di == 0:
        res['samples'].append({'datum': "'12'", 'target': 'int', 'context': 'dict_value',
                               'cell': "from_data({'k': '12'}, Dict[str, int]) must raise ConvertError"})
    return res


def replay(cell):
    pane = core.import_pane()
    warnings.simplefilter('ignore')
    res = core.new_result()
    eval_cell(pane, contexts(pane), cell['d'], cell['t'], tuple(cell['ctx']), res, cell.get('mode', 'plain'))
    return [v for lst in res['violations'].values() for v in lst]
