"""
C14 - dataclass construction is conversion; defaults are fresh; the set-field record is exact.
E4 class programs x all subsets of supplied fields x construction path, path-differential oracle; short mutate/construct histories.
"""
from __future__ import annotations

import itertools
import typing as t
import warnings

from mc import core, grammar, values, classes_gen, trees

ID = 'C14'
META = {
    'rule': "classes = every ordered choice of 1-2 (thorough: 1-3) fields from 14 field kinds (required int, int default, default_factory "
            "list / dict / nested dataclass, Optional default, aliased, a converting float field; each also keyword-only) x in_format "
            "{struct, struct+tuple} x hook {none, counting __post_init__, raising on a trigger value}; for every class ALL subsets of "
            "supplied fields x path {Cls(**kw), Cls(*prefix), from_data(mapping), from_data(sequence), make_unchecked}, each with a "
            "plain, a convertible (tuple for list, int for float, mapping for nested class) and an ill-kinded argument; oracle is "
            "path-differential: all paths give typed-equal instances; a defaulted field holds an equal, exactly-typed, fresh product of "
            "its factory (never the factory, never an object another instance holds); dict(set_only=True) keys == supplied names on "
            "every path; constructor arguments convert exactly like from_data(arg, field type) (same value or same error tree); "
            "make_unchecked stores the very object; the hook runs once per instance; a hook failure on a data path is a ConvertError "
            "with a cause. Histories: construct via path p, mutate the default container, construct via path q (all ordered pairs). "
            "Non-trivial: at least one field defaulted or converted; key = (field kinds, in_format, hook, subset mask, path).",
    'assumptions': ["classes that pane refuses at creation (mandatory after default etc.) are skipped"],
    'bounds': {'quick': '1-2 fields', 'thorough': '1-3 fields'},
}

# (kind name, type ast, default, good raw, convertible raw or None, bad raw, extra spec)
KINDS = [
    ('req_int', 'int', None, 5, True, 'x', {}),          # (conv: a bool is read like from_data reads it for an int field)
    ('def_int', 'int', ['value', '3'], 6, None, [1], {}),
    ('fac_list', ['list', 'int'], ['factory', 'list'], [1, 2], (3, 4), 'q', {}),
    ('fac_dict', ['dict', 'str', 'int'], ['factory', 'dict'], {'k': 1}, None, [1], {}),
    ('fac_nested', 'dc_defaults', ['factory', 'dc_defaults'], {'a': 4}, {'a': 4, 'b': 2}, 7, {}),
    ('opt_str', ['optional', 'str'], ['value', 'None'], 's', None, 5, {}),
    ('aliased', 'int', ['value', '1'], 8, None, None, {'aliases': ['al']}),
    ('conv_float', 'float', ['value', '0.5'], 2.5, 2, 'x', {}),
    # excluded from output, still an ordinary constructor argument and part of the set-field record
    ('excluded', 'int', ['value', '2'], 9, None, 'x', {'exclude': True}),
    # a mapping argument whose keys have different runtime types (all valid for the key type)
    ('float_keys', ['dict', 'float', 'str'], ['factory', 'dict'], {1: 'a', 2.5: 'b', 4: 'c'}, None, [1], {}),
    # a default the user wrote in unconverted form; the 'good' argument is that very object (1 is interned)
    ('def_raw_int', 'float', ['value', '1'], 1, None, 'x', {}),
    # a default that is an unusual object in its own right (Ellipsis): a default like any other, not "no default"
    ('def_ellipsis', 'any', ['value', '...'], 5, None, None, {}),
]
NAMES = ['a', 'b', 'c']
HOOKS = [None, 'count', 'raise', 'assign', 'lead']      # 'lead': no user hook, but a field that is NOT a constructor argument declared first


def field_choices():
    out = []
    for k in KINDS:
        out.append((k, False))
        out.append((k, True))
    return out


def class_specs(tier):
    ch = field_choices()
    maxn = 2 if tier == 'quick' else 3
    idx = 0
    for n in range(1, maxn + 1):
        for combo in itertools.product(range(len(ch)), repeat=n):
            for fmt in (['struct'], ['struct', 'tuple']):
                for hook in HOOKS:
                    yield idx, combo, fmt, hook
                    idx += 1


def make_spec(combo, fmt, hook):
    ch = field_choices()
    fields = []
    for i, ci in enumerate(combo):
        (kind, ty, default, good, conv, bad, extra), kw = ch[ci]
        extra = dict(extra)
        if 'aliases' in extra:
            extra['aliases'] = ['al_' + NAMES[i]]       # one alias per field
        fields.append(dict(name=NAMES[i], type=ty, default=default, kw_only=kw, kind=kind, **extra))
    spec = dict(name='C14', opts={'in_format': fmt}, fields=fields)
    if hook == 'count':
        spec['post'] = 'count'
    elif hook == 'assign':
        spec['post'] = ['assign_self', NAMES[0]]
        spec['opts']['frozen'] = False
    elif hook == 'lead':
        # init=False, filled in by the class itself; it sits BEFORE the positional fields and has another type than they do
        spec['fields'] = [dict(name='h0', type=['list', 'str'], default=None, kw_only=False, kind='hidden', init=False, exclude=True,
                               compare=False, repr=False)] + fields
        spec['init_false_setter'] = [['h0', "['hid']"]]
    elif hook == 'raise':
        spec['post'] = ['raise_if', NAMES[0], {'int': '13', 'float': '13.0'}.get(fields[0]['type'], "'never'") if isinstance(fields[0]['type'], str) else "'never'", 'HookBoom']
    return spec


def plan(tier, seed):
    return [{'i': i, 'n': 32} for i in range(32)]


def raw_for(f, which):
    k = next(k for k in KINDS if k[0] == f['kind'])
    if which == 'trigger':
        # the value on which the generated __post_init__ raises (first field only; int / float kinds)
        return {'int': 13, 'float': 13.0}.get(f['type']) if isinstance(f['type'], str) and f is not None else None
    if which == 'badinst':
        # an instance of the field's own class whose content was never validated: the constructor must re-validate it
        return grammar.dc_class('dc_defaults').make_unchecked(a='not an int') if f['kind'] == 'fac_nested' else None
    v = {'good': k[3], 'conv': k[4], 'bad': k[5]}[which]
    return values.fresh(v) if v is not None else None


def factory_product(pane, f):
    d = f['default']
    if d is None:
        return None
    if d[0] == 'value':
        return values.eval_expr(d[1])
    return {'list': list, 'dict': dict}.get(d[1], None)() if d[1] in ('list', 'dict') else grammar.dc_class(d[1])()


def run_class(pane, res, idx, combo, fmt, hook, only=None):
    from pane.errors import ConvertError
    spec = make_spec(combo, fmt, hook)
    cell_base = {'idx': idx, 'combo': list(combo), 'fmt': fmt, 'hook': hook}
    try:
        cls = classes_gen.build_class(spec, grammar.build, values.eval_expr, grammar.REGISTRY)
    except TypeError:
        res['outcomes']['class_refused'] += 1
        return
    res['states'] += 1
    fields = [f for f in classes_gen.effective_fields(spec) if f.get('init', True)]          # kw-only moved behind
    decl = [f for f in spec['fields'] if f.get('init', True)]
    pos = [f for f in fields if not f['kw_only']]
    kinds = '+'.join(f['kind'] + ('*' if f['kw_only'] else '') for f in decl)
    tuple_ok = 'tuple' in fmt
    sig0 = {'kinds': kinds if len(decl) == 1 else None}
    seen_default_ids: t.Dict[str, t.Dict[int, str]] = {f['name']: {} for f in decl}
    keep_alive = []
    ninst = 0
    classes_gen.PostCounter.counts.pop('C14', None)
    for mask in range(2 ** len(decl)):
        supplied = [f for i, f in enumerate(decl) if mask >> i & 1]
        names = [f['name'] for f in supplied]
        missing_req = [f['name'] for f in decl if not classes_gen.has_default(f) and f['name'] not in names]
        for variant in ('good', 'conv', 'bad', 'badinst') + (('trigger',) if hook == 'raise' else ()):
            if variant != 'good' and not supplied:
                continue
            raws = {}
            skip = False
            for j, f in enumerate(supplied):
                w = variant if j == 0 else 'good'          # the first supplied field carries the variant
                r = raw_for(f, w)
                if r is None:
                    skip = True
                raws[f['name']] = r
            if skip:
                continue
            # expected per-field conversion (the field type alone)
            expected = {}
            exp_err = None
            for f in supplied:
                try:
                    if variant == 'badinst' and f is supplied[0]:
                        # the documented meaning of convert(): serialise by the value's own type, then parse as the field type
                        Tf = grammar.build(f['type'])
                        expected[f['name']] = pane.from_data(pane.into_data(raws[f['name']], Tf), Tf)
                    else:
                        expected[f['name']] = pane.from_data(values.fresh(raws[f['name']]), grammar.build(f['type']))
                except ConvertError as e:
                    exp_err = (f['name'], e)
                except Exception as e:  # noqa: serialising an unvalidated instance may fail with a foreign exception (not judged
                    #                     beyond: the argument must not be accepted as it is)
                    exp_err = (f['name'], None)
            trigger = hook == 'raise' and decl[0]['name'] in expected and values.typed_eq(expected[decl[0]['name']], 13 if decl[0]['type'] == 'int' else 13.0)
            # ---- paths
            is_prefix = [f['name'] for f in pos[:len([f for f in supplied if not f['kw_only']])]] == [f['name'] for f in supplied if not f['kw_only']]
            paths: t.List[t.Tuple[str, t.Callable[[], t.Any]]] = []
            paths.append(('Cls(**kw)', lambda: cls(**{k: values.fresh(v) for k, v in raws.items()})))
            if is_prefix:
                pa = [values.fresh(raws[f['name']]) for f in pos if f['name'] in raws]
                kwa = {f['name']: values.fresh(raws[f['name']]) for f in supplied if f['kw_only']}
                paths.append(('Cls(*prefix)', lambda pa=pa, kwa=kwa: cls(*pa, **kwa)))
            in_name = {f['name']: (f['aliases'][0] if f.get('aliases') else f['name']) for f in decl}
            if variant != 'badinst':
                paths.append(('from_data(mapping)', lambda: pane.from_data({in_name[k]: values.fresh(v) for k, v in raws.items()}, cls)))
            if variant != 'badinst' and tuple_ok and is_prefix and not any(f['kw_only'] for f in supplied):
                paths.append(('from_data(sequence)', lambda: pane.from_data([values.fresh(raws[f['name']]) for f in pos if f['name'] in raws], cls)))
            results = []
            for pname, fn in paths:
                if only is not None and only != (mask, variant):
                    continue
                cell = dict(cell_base, mask=mask, variant=variant, path=pname)
                desc = f"class[{kinds}] in_format={fmt} hook={hook}: {pname} supplying {names} ({variant})"
                sig = {'path': pname, **sig0}
                res['evals'] += 1
                res['transitions'] += 1
                try:
                    inst = fn()
                    out = ('ok', inst)
                except ConvertError as e:
                    out = ('ConvertError', e)
                except Exception as e:  # noqa
                    out = (type(e).__name__, e)
                res['validated'] += 1
                res['outcomes'][f"{pname}/{out[0] if out[0] in ('ok', 'ConvertError') else 'other'}"] += 1
                if mask != 2 ** len(decl) - 1 or variant != 'good':
                    res['nontrivial'].add(f"{kinds}|{'+'.join(fmt)}|{hook}|{mask}|{pname}|{variant}|{out[0]}")
                data_path = pname.startswith('from_data')
                # --- what must happen
                if missing_req:
                    if out[0] == 'ok':
                        core.add_violation(res, {'kind': 'missing_required_accepted', **sig}, f"{desc}: returned {out[1]!r} although {missing_req} are required", cell, 3)
                    elif data_path and out[0] != 'ConvertError' or (not data_path and out[0] not in ('TypeError',)):
                        core.add_violation(res, {'kind': 'missing_required_wrong_exception', 'exc': out[0], **sig},
                                           f"{desc}: raised {out[0]} for missing {missing_req}", cell, 3)
                    continue
                if exp_err is not None and exp_err[1] is None:
                    if out[0] == 'ok':
                        core.add_violation(res, {'kind': 'unvalidated_instance_stored_verbatim', **sig},
                                           f"{desc}: an instance of the field's class with invalid content was accepted unconverted: {core.srepr(out[1], 80)}", cell, 3)
                    continue
                if exp_err is not None:
                    if out[0] != 'ConvertError':
                        core.add_violation(res, {'kind': 'bad_argument_not_refused', 'got': out[0], **sig},
                                           f"{desc}: field {exp_err[0]} alone is refused by from_data, but the path gave {out[0]} {core.srepr(out[1], 60)}", cell, 3)
                    elif not data_path:
                        if not trees.node_eq(out[1].tree, exp_err[1].tree):
                            core.add_violation(res, {'kind': 'constructor_error_differs_from_from_data', **sig},
                                               f"{desc}: constructor error {core.srepr(out[1].tree, 90)} is not the tree of from_data(arg, field type) "
                                               f"{core.srepr(exp_err[1].tree, 90)}", cell, 3)
                    continue
                if trigger:
                    if data_path:
                        if out[0] != 'ConvertError':
                            core.add_violation(res, {'kind': 'hook_failure_not_converterror', 'got': out[0], **sig},
                                               f"{desc}: __post_init__ raises on the trigger value; the data path gave {out[0]}", cell, 3)
                        elif not any(getattr(leaf, 'cause', None) is not None for _, leaf in trees.leaves(out[1].tree)):
                            core.add_violation(res, {'kind': 'hook_failure_without_cause', **sig},
                                               f"{desc}: ConvertError for a failing __post_init__ carries no cause", cell, 3)
                    elif out[0] == 'ok':
                        core.add_violation(res, {'kind': 'hook_not_run', **sig}, f"{desc}: __post_init__ should have raised", cell, 3)
                    continue
                if out[0] != 'ok':
                    core.add_violation(res, {'kind': 'valid_construction_refused', 'got': out[0], **sig},
                                       f"{desc}: raised {out[0]}: {core.sstr(out[1], 120)}", cell, 3)
                    continue
                inst = out[1]
                ninst += 1
                keep_alive.append(inst)
                results.append((pname, inst))
                if type(inst) is not cls:
                    core.add_violation(res, {'kind': 'wrong_class', **sig}, f"{desc}: returned {type(inst).__name__}", cell, 3)
                    continue
                for f in decl:
                    got = getattr(inst, f['name'], '<unset>')
                    if f['name'] in expected:
                        if not values.typed_eq(got, expected[f['name']]):
                            core.add_violation(res, {'kind': 'argument_not_converted_like_from_data', 'field_kind': f['kind'], **sig},
                                               f"{desc}: field {f['name']} holds {got!r} ({type(got).__name__}); from_data(arg, field type) "
                                               f"gives {expected[f['name']]!r} ({type(expected[f['name']]).__name__})", cell, 3)
                    else:
                        want = factory_product(pane, f)
                        d = f['default']
                        if not values.typed_eq(got, want):
                            core.add_violation(res, {'kind': 'default_wrong', 'field_kind': f['kind'], **sig},
                                               f"{desc}: defaulted field {f['name']} holds {got!r}, expected {want!r}", cell, 3)
                        elif d[0] == 'factory':
                            prev = seen_default_ids[f['name']].get(id(got))
                            if prev is not None:
                                core.add_violation(res, {'kind': 'default_shared_between_instances', 'field_kind': f['kind'], **sig},
                                                   f"{desc}: defaulted field {f['name']} is the very object already held by the instance "
                                                   f"built earlier via {prev}", cell, 3)
                            seen_default_ids[f['name']][id(got)] = pname
                try:
                    so = set(inst.dict(set_only=True).keys())
                except Exception as e:  # noqa
                    so = f"<{type(e).__name__}: {e}>"
                if so != set(names):
                    core.add_violation(res, {'kind': 'set_fields_record', 'aliased': any(f.get('aliases') for f in supplied), **sig},
                                       f"{desc}: dict(set_only=True) has keys {so}, supplied were {sorted(names)}", cell, 3)
            # all successful paths agree
            for (p1, i1), (p2, i2) in zip(results, results[1:]):
                if not (values.typed_eq(i1, i2) and i1 == i2):
                    core.add_violation(res, {'kind': 'paths_disagree', 'pair': f"{p1} vs {p2}", **sig0},
                                       f"class[{kinds}] supplying {names} ({variant}): {p1} gives {i1!r} but {p2} gives {i2!r}",
                                       dict(cell_base, mask=mask, variant=variant, path=p2), 3)
            # make_unchecked stores the very objects
            if variant == 'good' and not missing_req and (only is None or only == (mask, variant)):
                objs = {k: values.fresh(v) for k, v in raws.items()}
                try:
                    u = cls.make_unchecked(**objs)
                    ninst += 1
                    bad = [k for k, o in objs.items() if getattr(u, k) is not o]
                    so = set(u.dict(set_only=True))
                    if bad:
                        core.add_violation(res, {'kind': 'make_unchecked_not_verbatim', **sig0},
                                           f"class[{kinds}]: make_unchecked does not store the very object passed for {bad}",
                                           dict(cell_base, mask=mask, variant=variant, path='make_unchecked'), 3)
                    elif so != set(names):
                        core.add_violation(res, {'kind': 'set_fields_record', 'aliased': False, 'path': 'make_unchecked', **sig0},
                                           f"class[{kinds}]: make_unchecked set-record {so} != supplied {names}",
                                           dict(cell_base, mask=mask, variant=variant, path='make_unchecked'), 3)
                except Exception as e:  # noqa
                    if not (hook == 'raise' and trigger):
                        core.add_violation(res, {'kind': 'make_unchecked_raises', 'exc': type(e).__name__, **sig0},
                                           f"class[{kinds}]: make_unchecked({names}) raised {type(e).__name__}: {e}",
                                           dict(cell_base, mask=mask, variant=variant, path='make_unchecked'), 3)
    if hook == 'count' and only is None:
        n = classes_gen.PostCounter.counts.get('C14', 0)
        if n != ninst:
            core.add_violation(res, {'kind': 'post_init_count', **sig0},
                               f"class[{kinds}] in_format={fmt}: __post_init__ ran {n} times for {ninst} instances created",
                               dict(cell_base, mask=None, variant=None, path='count'), 3)
    # ---- a derived class inherits the hook: "runs for every instance created, a failure there surfacing as ConvertError on data paths"
    if hook == 'raise' and only is None and raw_for(decl[0], 'trigger') is not None:
        Sub = grammar.pin(type('C14Sub', (cls,), {'__annotations__': {}, '__module__': 'mc.generated'}))
        supplied = {f['name']: (raw_for(f, 'trigger') if f is decl[0] else raw_for(f, 'good')) for f in decl}
        if all(v is not None for v in supplied.values()):
            paths = [('mapping data', lambda: pane.from_data(values.fresh(supplied), Sub)), ('keywords', lambda: Sub(**values.fresh(supplied)))]
            if tuple_ok and not any(f['kw_only'] for f in decl):
                paths.append(('sequence data', lambda: pane.from_data([values.fresh(supplied[f['name']]) for f in fields], Sub)))
            for pname, run in paths:
                res['evals'] += 1
                res['transitions'] += 1
                res['validated'] += 1
                try:
                    got = run()
                    problem = f"returned {got!r}: the inherited hook did not run or its failure was swallowed"
                except ConvertError:
                    problem = None
                except Exception as e:  # noqa
                    problem = None if (pname == 'keywords' and isinstance(e, classes_gen.HookBoom)) else f"raised {type(e).__name__}: {core.sstr(e, 80)}"
                if problem:
                    core.add_violation(res, {'kind': 'inherited_hook', 'path': pname, **sig0},
                                       f"class[{kinds}] in_format={fmt}: a subclass that inherits the raising __post_init__, {pname} with the triggering value: {problem}",
                                       dict(cell_base, mask=None, variant='trigger', path='derived:' + pname), 4)
    # ---- histories: construct, mutate the default container, construct again (all ordered pairs of paths)
    facs = [f for f in decl if f['default'] and f['default'][0] == 'factory' and f['default'][1] in ('list', 'dict')]
    if facs and not [f for f in decl if not classes_gen.has_default(f)] and only is None:
        makers = [('Cls()', lambda: cls()), ('from_data({})', lambda: pane.from_data({}, cls)), ('make_unchecked()', lambda: cls.make_unchecked())]
        if tuple_ok:
            makers.append(('from_data([])', lambda: pane.from_data([], cls)))
        for (n1, m1), (n2, m2) in itertools.product(makers, repeat=2):
            res['transitions'] += 3
            res['evals'] += 1
            try:
                x = m1()
                for f in facs:
                    c = getattr(x, f['name'])
                    if isinstance(c, list):
                        c.append(99)
                    else:
                        c['poison'] = 99
                y = m2()
                z = m1()
            except Exception as e:  # noqa
                core.add_violation(res, {'kind': 'history_raises', 'exc': type(e).__name__, **sig0},
                                   f"class[{kinds}]: {n1}; mutate default; {n2} raised {type(e).__name__}: {e}",
                                   dict(cell_base, mask=0, variant='history', path=f"{n1}>{n2}"), 4)
                continue
            for inst, nm in ((y, n2), (z, n1)):
                for f in facs:
                    c = getattr(inst, f['name'])
                    if len(c) != 0 or c is getattr(x, f['name']):
                        core.add_violation(res, {'kind': 'default_not_fresh_after_mutation', 'field_kind': f['kind'], 'second_path': nm, **sig0},
                                           f"class[{kinds}]: after {n1} and mutating its default {f['name']}, {nm} gives {f['name']}={c!r}",
                                           dict(cell_base, mask=0, variant='history', path=f"{n1}>{nm}"), 4)
            res['nontrivial'].add(f"hist|{kinds}|{n1}|{n2}")


def run_shard(shard, tier):
    pane = core.import_pane()
    warnings.simplefilter('ignore')
    res = core.new_result()
    from pane.convert import make_converter
    n = 0
    for idx, combo, fmt, hook in class_specs(tier):
        if idx % shard['n'] != shard['i']:
            continue
        try:
            run_class(pane, res, idx, combo, fmt, hook)
        except Exception as e:  # noqa
            import traceback
            tb = traceback.extract_tb(e.__traceback__)[-1]
            core.add_violation(res, {'kind': 'oracle_exception', 'exc': type(e).__name__, 'where': f"{tb.name}:{tb.lineno}"},
                               f"class {idx} {combo} {fmt} {hook} raised {type(e).__name__}: {core.sstr(e)} at line {tb.lineno}",
                               {'idx': idx, 'combo': list(combo), 'fmt': fmt, 'hook': hook, 'mask': None, 'variant': None, 'path': None}, 9)
        n += 1
        if n % 300 == 0:
            make_converter.cache.clear()
    if shard['i'] == 0:
        res['samples'].append({'class_fields': ['fac_list', 'aliased*'], 'in_format': ['struct', 'tuple'], 'hook': 'count',
                               'supplied_subsets': [[], ['a'], ['b'], ['a', 'b']], 'paths': ['Cls(**kw)', 'Cls(*prefix)', 'from_data(mapping)', 'from_data(sequence)', 'make_unchecked']})
    return res


def replay(cell):
    pane = core.import_pane()
    warnings.simplefilter('ignore')
    res = core.new_result()
    run_class(pane, res, cell['idx'], tuple(cell['combo']), cell['fmt'], cell['hook'])
    out = [v for lst in res['violations'].values() for v in lst]
    same = [v for v in out if v['cell'].get('mask') == cell.get('mask') and v['cell'].get('path') == cell.get('path')]
    return same or out
