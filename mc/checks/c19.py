"""
C19 - JSON / YAML file round trip and stream ownership.
Runs under a non-UTF-8 locale (LC_ALL=C, PYTHONUTF8=0) so that a missing encoding= shows, with pane.io.open shadowed by a recorder.
"""
from __future__ import annotations

import io
import itertools
import os
import pathlib
import shutil
import tempfile
import typing as t
import warnings

from mc import core, grammar, values

ID = 'C19'
ENV = {'LC_ALL': 'C', 'LANG': 'C', 'PYTHONUTF8': '0', 'PYTHONCOERCECLOCALE': '0'}
META = {
    'rule': "pool of 60 JSON/YAML-representable typed values (None, bools, ints incl. 10**20, floats incl. -0.0 / 1e300 / inf, 22 strings: "
            "'', non-ASCII, astral, multi-line, leading/trailing space, 'yes', 'null', '1', 'a: b', '# c', quotes, tabs, 100 chars; nested "
            "lists / dicts; typed containers; Decimal / date / Optional; five dataclass fixtures incl. renamed, nested, tuple-output) x "
            "sink kind (Path, str path, caller-opened text file in utf-8 and latin-1, StringIO, returned string of write_json()/write_yaml()) x "
            "source kind (Path, str path, caller-opened file, StringIO, from_jsons / from_yamls) x the FULL option cube: JSON indent "
            "{None,0,2,'\\t'} x sort_keys; YAML indent {None,2,4} x width {None,20} x allow_unicode x explicit_start x explicit_end x "
            "default_style {None,'\"','|','>'} x default_flow_style {None,True,False} x sort_keys (1 152 settings); multi-document "
            "histories of 0-3 documents (incl. null documents) written to one open stream, rewound and read with from_yaml_all. "
            "Oracle: value read back typed-equal to the value written; caller streams not closed and positioned after the text; every "
            "handle pane opened itself was opened with encoding='utf-8' and is closed afterwards (also when conversion fails); bytes on "
            "disk decode as UTF-8; one converted value per document. Non-trivial: non-default option setting or non-StringIO sink/source; "
            "key = (format, sink, source, option signature class, value class).",
    'assumptions': ["the process locale is C (non-UTF-8) for the whole run", "PyYAML C bindings (CSafeDumper/CSafeLoader) as installed"],
    'bounds': {'quick': 'full YAML cube on 12 values + all values on 24 cube corners; all sink x source pairs on all values with default options',
               'thorough': 'full YAML cube on all values; sink x source pairs on 8 option settings'},
}

STRINGS = ['abc', '', 'é', '日本', '\U0001F600', 'a\nb', 'a\nb\n', ' lead', 'trail ', 'yes', 'null', '1', '1.5', 'a: b', '# c', '"q"', "'s'",
           'tab\there', 'x' * 100, '- item', '~', 'line one\n  indented\n\nlast']


def value_pool():
    import datetime
    import decimal
    out: t.List[t.Tuple[t.Any, t.Any, str]] = []      # (typed value, type ast or type object, label)
    out += [(None, ['optional', 'int'], 'none'), (True, 'bool', 'bool'), (False, 'bool', 'bool'), (0, 'int', 'int'), (-7, 'int', 'int'),
            (10 ** 20, 'int', 'bigint'), (1.5, 'float', 'float'), (-0.0, 'float', 'negzero'), (1e300, 'float', 'float'), (values.INF, 'float', 'inf')]
    for s in STRINGS:
        out.append((s, 'str', 'str'))
    out += [([1, 2, 3], ['list', 'int'], 'list'), ([], ['list', 'int'], 'list'), (['a', 'é', ''], ['list', 'str'], 'list'),
            ([[1], [2, 3]], ['list', ['list', 'int']], 'nested'), ({'a': 1}, ['dict', 'str', 'int'], 'dict'), ({}, ['dict', 'str', 'int'], 'dict'),
            ({'é': 'ü', 'b': 'yes'}, ['dict', 'str', 'str'], 'dict'), ({'k': [1, None]}, ['dict', 'str', ['list', ['optional', 'int']]], 'nested'),
            ((1, 'a'), ['tuple', 'int', 'str'], 'tuple'), ({'z': 1.5, 'a': 2.0}, ['dict', 'str', 'float'], 'dict'),
            (decimal.Decimal('1.50'), 'decimal', 'decimal'), (datetime.date(2023, 9, 5), 'date', 'date'),
            (datetime.datetime(2023, 9, 5, 11, 11, 11), 'datetime', 'datetime'), ([None, 3], ['list', ['optional', 'int']], 'list')]
    for leaf, data in (('dc_struct', {'a': 1, 'b': 'é\nx'}), ('dc_nested', {'p': {'a': 2, 'b': 'yes'}, 'q': {'a': 3, 'b': ''}}),
                       ('dc_alias', {'myField': 4, 'otherOne': 'null'}), ('dc_tupleout', [5, 2.5]), ('dc_defaults', {}),
                       ('dc_rich', {'f': '1/3', 's': [1, 2], 'm': {'x': '2.5'}})):
        out.append((('dc', leaf, data), leaf, 'dataclass'))
    # tagged unions in the three layouts (sort_keys=True puts the content key 'c' before the tag key 't')
    for leaf, data in (('tag_int', {'x': 'v2', 'y': 'q'}), ('tag_ext', {'v1': {'y': 3}}), ('tag_adj', {'t': 'v2', 'c': {'y': 'é'}}),
                       ('tag_num', {'t': 2, 'c': {'y': [1, 2]}})):
        out.append((('dc', leaf, data), leaf, 'tagged'))
        out.append((('dc', ['list', leaf], [data, data]), ['list', leaf], 'tagged'))
    # strings that another notation would read as numbers (YAML 1.1 wants a dot in a float; JSON does not), under every option setting
    out.append((['1e3', 'NaN', 'Infinity', '1E5', '-1e-3', '12e03'], ['list', 'str'], 'looks_numeric'))
    out.append((['1e3', 2.5, '-Infinity'], ['list', ['union', 'float', 'str']], 'looks_numeric'))
    # text no encoder can write as it is (a lone surrogate, e.g. from os.fsdecode): JSON escapes it; YAML has no way to write it
    out.append(('\udcff', 'str', 'json_only'))
    out.append(({'k\udcff': ['v\udcff', 'é']}, ['dict', 'str', ['list', 'str']], 'json_only'))
    # a declared type that is a SUBCLASS of str (what is written must still be plain text the dumpers know)
    out.append((('dc', ('obj', 'substr'), 'host-é'), ('obj', 'substr'), 'str subclass'))
    out.append((('dc', ('obj', 'list_substr'), ['a', 'b']), ('obj', 'list_substr'), 'str subclass'))
    out.append((('dc', ('obj', 'dict_substr_key'), {'k': 1}), ('obj', 'dict_substr_key'), 'str subclass'))
    out.append((('dc', ('obj', 'dc_substr'), {'name': 'alpha.example', 'n': 2}), ('obj', 'dc_substr'), 'str subclass'))
    return out


_OBJ: t.Dict[str, t.Any] = {}


def _obj_type(pane, name):
    if not _OBJ:
        S = grammar.SubStr
        _OBJ.update(substr=S, list_substr=grammar.pin(t.List[S]), dict_substr_key=grammar.pin(t.Dict[S, int]),
                    dc_substr=grammar.pin(type('HostRec', (pane.PaneBase,), {'__annotations__': {'name': S, 'n': int}, '__module__': 'mc.generated'})))
    return _OBJ[name]


def materialise(pane, entry):
    v, ty, label = entry
    T = _obj_type(pane, ty[1]) if isinstance(ty, tuple) and ty[0] == 'obj' else grammar.build(ty)
    if isinstance(v, tuple) and len(v) == 3 and v[0] == 'dc':
        v = pane.from_data(values.fresh(v[2]), T)
    return v, T, label


JSON_OPTS = [dict(indent=i, sort_keys=s) for i in (None, 0, 2, '\t') for s in (False, True)]


def yaml_cube():
    for indent, width, au, es, ee, ds, dfs, sk in itertools.product((None, 2, 4), (None, 20), (True, False), (True, False), (False, True),
                                                                   (None, '"', '|', '>'), (None, True, False), (False, True)):
        yield dict(indent=indent, width=width, allow_unicode=au, explicit_start=es, explicit_end=ee, default_style=ds,
                   default_flow_style=dfs, sort_keys=sk)


YAML_CORNERS = [o for i, o in enumerate(yaml_cube()) if i % 48 == 0]


def opt_class(o):
    return '/'.join(f"{k[:3]}={v}" for k, v in o.items() if v not in (None, False)) or 'default'


class OpenRecorder:
    """Shadows pane.io.open: records how pane opens the files it opens itself."""

    def __init__(self):
        self.calls: t.List[t.Tuple[tuple, dict, t.Any]] = []

    def __call__(self, *a, **kw):
        f = open(*a, **kw)
        self.calls.append((a, kw, f))
        return f

    def problems(self):
        for a, kw, f in self.calls:
            enc = kw.get('encoding', a[3] if len(a) > 3 else None)
            if enc is None or str(enc).lower().replace('_', '-') not in ('utf-8', 'utf8'):
                return f"pane opened {a[0]!r} with encoding={enc!r} (locale default is {f.encoding!r})"
            if not f.closed:
                f.close()
                return f"the handle pane opened for {a[0]!r} was left open"
        return None


SINKS = ['stringio', 'path', 'strpath', 'textfile_utf8', 'textfile_latin1', 'returned_string']
SOURCES = ['stringio', 'path', 'strpath', 'textfile', 'from_string']


def write(pane, fmt, x, T, sink, opts, tmp, is_dc):
    """Returns (text written, problem or None). Uses the dataclass methods when available."""
    rec = OpenRecorder()
    import sys
    pio = sys.modules['pane.io']
    pio.open = rec
    try:
        fn = (lambda f: getattr(x, f'write_{fmt}')(f, **opts)) if is_dc else (lambda f: getattr(pane, f'write_{fmt}')(x, f, ty=T, **opts))
        p = os.path.join(tmp, f'out.{fmt}')
        if os.path.exists(p):
            os.remove(p)
        if sink == 'stringio':
            buf = io.StringIO()
            fn(buf)
            if buf.closed:
                return None, "the caller's StringIO was closed"
            text = buf.getvalue()
            if buf.tell() != len(text):
                return text, f"the caller's stream is at position {buf.tell()}, the written text has {len(text)} characters"
        elif sink in ('path', 'strpath'):
            fn(pathlib.Path(p) if sink == 'path' else p)
            raw = open(p, 'rb').read()
            try:
                text = raw.decode('utf-8')
            except UnicodeDecodeError as e:
                return None, f"bytes on disk do not decode as UTF-8: {e}"
            if not rec.calls:
                return text, "pane did not open the path through open()"
        elif sink.startswith('textfile'):
            enc = 'utf-8' if sink.endswith('utf8') else 'latin-1'
            fh = open(p, 'w', encoding=enc, newline='')
            try:
                fn(fh)
                if fh.closed:
                    return None, f"the caller's text file (opened with encoding={enc!r}) was closed by pane"
                try:
                    fh.write('')
                    fh.flush()
                except ValueError as e:
                    return None, f"the caller's text file is unusable after the call: {e}"
                enc_now = fh.encoding
            finally:
                if not fh.closed:
                    fh.close()
            raw = open(p, 'rb').read()
            try:
                text = raw.decode(enc_now)
            except UnicodeDecodeError as e:
                return None, f"bytes on disk do not decode as {enc_now}: {e}"
        else:
            if not is_dc:
                return 'SKIP', None
            text = getattr(x, f'write_{fmt}')(**opts)
            if not isinstance(text, str):
                return None, f"write_{fmt}() returned {type(text).__name__}, not str"
        return text, rec.problems()
    finally:
        del pio.open


def read(pane, fmt, text, T, source, tmp, is_dc, rawbytes=None):
    """Returns (value, problem)."""
    rec = OpenRecorder()
    import sys
    pio = sys.modules['pane.io']
    pio.open = rec
    try:
        fn = (lambda f: getattr(T, f'from_{fmt}')(f)) if is_dc else (lambda f: getattr(pane, f'from_{fmt}')(f, T))
        p = os.path.join(tmp, f'in.{fmt}')
        if source in ('path', 'strpath', 'textfile'):
            with open(p, 'wb') as fh:
                fh.write(text.encode('utf-8'))
        if source == 'stringio':
            buf = io.StringIO(text)
            v = fn(buf)
            if buf.closed:
                return v, "the caller's StringIO was closed by the read"
        elif source in ('path', 'strpath'):
            v = fn(pathlib.Path(p) if source == 'path' else p)
            if not rec.calls:
                return v, "pane did not open the path through open()"
        elif source == 'textfile':
            fh = open(p, 'r', encoding='utf-8')
            try:
                v = fn(fh)
                if fh.closed:
                    return v, "the caller's text file was closed by the read"
            finally:
                if not fh.closed:
                    fh.close()
        else:
            if not is_dc:
                return 'SKIP', None
            v = getattr(T, f'from_{fmt}s')(text)
        return v, rec.problems()
    finally:
        del pio.open


def round_trip(pane, res, vi, entry, fmt, sink, source, opts, tmp):
    x, T, label = entry
    is_dc = hasattr(type(x), '__pane_info__') and label != 'tagged'     # (a tagged value is written through the union type, not its class)
    cell = {'vi': vi, 'fmt': fmt, 'sink': sink, 'source': source, 'opts': opts}
    desc = f"{fmt} {sink}->{source} opts={opt_class(opts)}: {core.srepr(x, 50)}"
    sig = {'fmt': fmt}
    res['states'] += 1
    try:
        text, problem = write(pane, fmt, x, T, sink, opts, tmp, is_dc)
    except Exception as e:  # noqa
        core.add_violation(res, {'kind': 'write_raises', 'exc': type(e).__name__, 'site': core.site_of(e), **sig},
                           f"{desc}: write raised {type(e).__name__}: {core.sstr(e, 100)}", cell, 3)
        return
    if text == 'SKIP':
        return
    res['evals'] += 1
    res['transitions'] += 2
    if problem:
        core.add_violation(res, {'kind': 'sink_ownership', 'sink': sink, 'what': problem.split('(')[0][:40], **sig},
                           f"{desc}: {problem}", cell, 3)
        return
    try:
        back, problem = read(pane, fmt, text, T, source, tmp, is_dc)
    except Exception as e:  # noqa
        core.add_violation(res, {'kind': 'read_raises', 'exc': type(e).__name__, 'label': label,
                                 'style': opts.get('default_style'), **sig},
                           f"{desc}: reading back {text[:60]!r} raised {type(e).__name__}: {core.sstr(e, 100)}", cell, 3)
        return
    if back == 'SKIP':
        return
    res['validated'] += 1
    if opts or sink != 'stringio' or source != 'stringio':
        res['nontrivial'].add(f"{fmt}|{sink}|{source}|{opt_class(opts)[:40]}|{label}")
    res['outcomes'][f"{fmt}_roundtrip"] += 1
    if problem:
        core.add_violation(res, {'kind': 'source_ownership', 'source': source, 'what': problem.split('(')[0][:40], **sig},
                           f"{desc}: {problem}", cell, 3)
        return
    if not (values.typed_eq(back, x) or (is_dc and back == x and type(back) is type(x))):
        core.add_violation(res, {'kind': 'roundtrip_differs', 'label': label, 'style': opts.get('default_style'),
                                 'flow': opts.get('default_flow_style'), **sig},
                           f"{desc}: wrote {text[:80]!r}, read back {core.srepr(back, 60)}", cell, 3)


def multi_doc(pane, res, pool, tmp):
    """Histories of 0-3 documents written to one open stream, rewound, read with from_yaml_all."""
    docs_pool = [(None, t.Optional[int]), (3, t.Optional[int]), (0, t.Optional[int])]
    dcx = [e for e in pool if e[2] == 'dataclass'][:2]
    seqs: t.List[t.Tuple[t.List[t.Any], t.Any]] = []
    for n in range(0, 4):
        for combo in itertools.product(range(len(docs_pool)), repeat=n):
            seqs.append(([docs_pool[i][0] for i in combo], t.Optional[int]))
    for x, T, _ in dcx:
        for n in range(0, 4):
            seqs.append(([x] * n, T))
    for docs, T in seqs:
        for kind in ('stringio', 'file'):
            for opts in ({}, {'explicit_end': True}, {'default_flow_style': True}):
                res['states'] += 1
                res['evals'] += 1
                res['transitions'] += len(docs) + 1
                cell = {'multi': True, 'docs': [values.expr(d) if not hasattr(type(d), '__pane_info__') else repr(d) for d in docs],
                        'stream': kind, 'opts': opts}
                desc = f"from_yaml_all after writing {len(docs)} document(s) {cell['docs']} to one {kind} (opts {opts})"
                try:
                    if kind == 'stringio':
                        stream = io.StringIO()
                    else:
                        stream = open(os.path.join(tmp, 'multi.yaml'), 'w+', encoding='utf-8')
                    try:
                        for d in docs:
                            pane.write_yaml(d, stream, ty=T, **opts)
                            if stream.closed:
                                raise AssertionError("stream closed after a write")
                        stream.seek(0)
                        is_dc = hasattr(T, '__pane_info__')
                        got = T.from_yaml_all(stream) if is_dc else pane.from_yaml_all(stream, T)
                        closed = stream.closed
                    finally:
                        if not stream.closed:
                            stream.close()
                except Exception as e:  # noqa
                    core.add_violation(res, {'kind': 'multi_doc_raises', 'exc': type(e).__name__},
                                       f"{desc} raised {type(e).__name__}: {core.sstr(e, 100)}", cell, 2 + len(docs))
                    continue
                res['validated'] += 1
                res['nontrivial'].add(f"multi|{len(docs)}|{kind}|{sorted(opts)}|{sum(d is None for d in docs)}")
                res['outcomes']['yaml_all'] += 1
                if closed:
                    core.add_violation(res, {'kind': 'source_ownership', 'source': 'multi_' + kind},
                                       f"{desc}: the caller's stream was closed", cell, 2 + len(docs))
                elif not (isinstance(got, list) and len(got) == len(docs) and all(values.typed_eq(a, b) or a == b for a, b in zip(got, docs))):
                    core.add_violation(res, {'kind': 'one_value_per_document', 'ndocs': len(docs), 'nulls': sum(d is None for d in docs) > 0},
                                       f"{desc} returned {core.srepr(got, 80)}", cell, 2 + len(docs))


def multi_doc_union_orders(pane, res):
    """from_yaml_all for Union[int, float] and then for Union[float, int] in one interpreter: one converted value per document,
    converted by the type that was PASSED (the two unions compare equal; whatever is memoised per type must tell them apart)."""
    for first, second in ((int, float), (float, int)):
        grammar.fresh_typing()
        for order in ((first, second), (second, first)):
            U = grammar.pin(t.Union[order])
            want = [order[0](1) if order[0] is float else 1, 2.5]
            res['states'] += 1
            res['evals'] += 1
            res['validated'] += 1
            res['transitions'] += 3
            res['nontrivial'].add(f"multi_union|{order[0].__name__}")
            cell = {'multi_union': True}
            try:
                stream = io.StringIO()
                for d in (1, 2.5):
                    pane.write_yaml(d, stream, ty=U)
                stream.seek(0)
                got = pane.from_yaml_all(stream, U)
            except Exception as e:  # noqa
                core.add_violation(res, {'kind': 'multi_doc_raises', 'exc': type(e).__name__},
                                   f"from_yaml_all(stream, Union[{order[0].__name__}, {order[1].__name__}]) raised {type(e).__name__}: {core.sstr(e, 100)}", cell, 3)
                continue
            if not values.typed_eq(got, want):
                core.add_violation(res, {'kind': 'documents_converted_by_another_type', 'first': order[0].__name__},
                                   f"from_yaml_all of the documents 1 and 2.5 as Union[{order[0].__name__}, {order[1].__name__}] (after the same with the members "
                                   f"the other way round) returned {got!r}, expected {want!r}", cell, 3)


def reader_histories(pane, res):
    """Sequences of reader calls on the same texts: what one reader does (to the YAML loader it shares with the others, say) must not
    change what a later one returns.  Every result is compared with the first result of the same (reader, text, type)."""
    import datetime
    texts = ['--- 2020-01-02\n--- a\n', '--- [2020-01-02, 1]\n', '--- {d: 2020-01-02}\n--- 3\n', '--- yes\n--- 1_000\n--- 0x10\n']
    types_ = [t.Any, t.Union[str, datetime.date, int, bool, t.List[t.Any], t.Dict[str, t.Any]]]

    def read_all(text, T):
        return pane.from_yaml_all(io.StringIO(text), T)

    def read_one(text, T):
        return pane.from_yaml(io.StringIO(text.split('\n--- ')[0] + '\n'), T)

    readers = {'from_yaml_all': read_all, 'from_yaml': read_one, 'from_json': lambda text, T: pane.from_json(io.StringIO('[1, "2020-01-02"]'), T)}
    first: t.Dict[t.Any, t.Any] = {}
    for seq in itertools.product(readers, repeat=3):
        hist = []
        for name in seq:
            hist.append(name)
            for ti, text in enumerate(texts):
                for yi, T in enumerate(types_):
                    res['states'] += 1
                    res['evals'] += 1
                    res['validated'] += 1
                    res['transitions'] += 1
                    try:
                        got = ('ok', values.ckey(readers[name](text, T)))
                    except Exception as e:  # noqa
                        got = ('raised', type(e).__name__)
                    key = (name, ti, yi)
                    if key not in first:
                        first[key] = (got, list(hist))
                    elif first[key][0] != got:
                        core.add_violation(res, {'kind': 'reader_result_depends_on_earlier_reads', 'reader': name},
                                           f"{name} of {text!r} as {'Any' if yi == 0 else 'a union'} after the calls {hist[:-1]} gives {got!r}; "
                                           f"the first time (after {first[key][1][:-1]}) it gave {first[key][0]!r}", {'reader_histories': True}, len(hist))
    res['nontrivial'].add('reader_histories')


def failing_read_closes(pane, res, tmp):
    """Paths are closed even when the conversion fails."""
    from pane.errors import ConvertError
    import sys
    for fmt, text in (('json', '{"a": "not an int"}'), ('yaml', 'a: not an int\n'), ('json', '[1, 2'), ('yaml', 'a: [1, 2')):
        rec = OpenRecorder()
        pio = sys.modules['pane.io']
        pio.open = rec
        p = os.path.join(tmp, f'bad.{fmt}')
        with open(p, 'w', encoding='utf-8') as fh:
            fh.write(text)
        res['states'] += 1
        res['evals'] += 1
        res['validated'] += 1
        try:
            try:
                getattr(pane, f'from_{fmt}')(p, t.Dict[str, int])
                outcome = 'returned'
            except ConvertError:
                outcome = 'ConvertError'
            except Exception as e:  # noqa: parser errors of json/yaml themselves
                outcome = type(e).__name__
        finally:
            del pio.open
        res['nontrivial'].add(f"failing_read|{fmt}|{outcome}")
        problem = rec.problems()
        if problem:
            core.add_violation(res, {'kind': 'failing_read_leaves_handle', 'fmt': fmt},
                               f"from_{fmt}(path) on {text!r} ({outcome}): {problem}", {'failing': True, 'fmt': fmt}, 2)


def plan(tier, seed):
    n = len(value_pool())
    return [{'vi': i} for i in range(n)] + [{'multi': True}]


def run_value(pane, res, vi, tier, tmp, only=None):
    pool = value_pool()
    entry = materialise(pane, pool[vi])
    full_cube = tier == 'thorough' or vi % 2 == 0 or pool[vi][2] in ('dataclass', 'looks_numeric')
    todo = []
    for o in JSON_OPTS:
        todo.append(('json', 'stringio', 'stringio', o))
    for o in (yaml_cube() if full_cube else YAML_CORNERS):
        todo.append(('yaml', 'stringio', 'stringio', o))
    some_opts = {'json': [{}, {'indent': 2, 'sort_keys': True}], 'yaml': [{}, {'allow_unicode': False, 'default_flow_style': True},
                                                                            {'default_style': '"', 'width': 20}]}
    for fmt in ('json', 'yaml'):
        for sink in SINKS:
            for source in SOURCES:
                for o in (some_opts[fmt] if tier == 'thorough' or (sink, source) != ('stringio', 'stringio') else []):
                    if tier == 'quick' and o and sink not in ('path', 'textfile_latin1', 'returned_string'):
                        continue
                    todo.append((fmt, sink, source, o))
    for fmt, sink, source, o in todo:
        if only is not None and (fmt, sink, source, o) != only:
            continue
        if fmt == 'yaml' and pool[vi][2] == 'json_only':
            continue
        if fmt == 'json' and isinstance(entry[0], float) and entry[0] in (values.INF,):
            pass
        try:
            round_trip(pane, res, vi, entry, fmt, sink, source, o, tmp)
        except Exception as e:  # noqa
            core.add_violation(res, {'kind': 'oracle_exception', 'exc': type(e).__name__},
                               f"cell {vi} {fmt} {sink} {source} {o} raised {type(e).__name__}: {core.sstr(e)}",
                               {'vi': vi, 'fmt': fmt, 'sink': sink, 'source': source, 'opts': o}, 9)


def run_shard(shard, tier):
    pane = core.import_pane()
    warnings.simplefilter('ignore')
    res = core.new_result()
    import locale
    res['extra']['locale_encoding'] = locale.getpreferredencoding(False)
    tmp = tempfile.mkdtemp(prefix='c19-')
    try:
        if shard.get('multi'):
            pool = [materialise(pane, e) for e in value_pool()]
            multi_doc(pane, res, pool, tmp)
            failing_read_closes(pane, res, tmp)
            multi_doc_union_orders(pane, res)
            reader_histories(pane, res)
            res['samples'].append({'multi_document_history': ['write_yaml(3)', 'write_yaml(None)', 'seek(0)', 'from_yaml_all -> [3, None]']})
        else:
            run_value(pane, res, shard['vi'], tier, tmp)
            if shard['vi'] == 12:
                res['samples'].append({'value': repr(value_pool()[12][0]), 'yaml_options': YAML_CORNERS[3], 'sink': 'path', 'source': 'textfile'})
    finally:
        shutil.rmtree(tmp, ignore_errors=True)
    return res


def replay(cell):
    pane = core.import_pane()
    warnings.simplefilter('ignore')
    res = core.new_result()
    tmp = tempfile.mkdtemp(prefix='c19-')
    try:
        if cell.get('multi') or cell.get('failing'):
            pool = [materialise(pane, e) for e in value_pool()]
            multi_doc(pane, res, pool, tmp)
            failing_read_closes(pane, res, tmp)
            multi_doc_union_orders(pane, res)
            reader_histories(pane, res)
            out = [v for lst in res['violations'].values() for v in lst]
            return [v for v in out if v['cell'] == cell] or out
        run_value(pane, res, cell['vi'], 'thorough', tmp, only=(cell['fmt'], cell['sink'], cell['source'], cell['opts']))
    finally:
        shutil.rmtree(tmp, ignore_errors=True)
    return [v for lst in res['violations'].values() for v in lst]
