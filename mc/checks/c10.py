"""
C10 - results are independent of call history; memoisation is transparent; concurrent use is safe.

Part 'hist'  (E2): explicit-state breadth-first search over operation histories on the real make_converter memo.
Part 'sched' (E3): every schedule up to a preemption bound of small thread harnesses on the real KeyCache / make_converter.
"""
from __future__ import annotations

import collections
import gc
import os
import itertools
import typing as t
import warnings

from mc import core, values, sched, grammar

ID = 'C10'
MAXTASKS = 1          # every shard in a fresh interpreter: allocation history (id recycling) is then reproducible from the shard alone
KEEP_ORDER = True     # longest shards first (load balance); the seed does not change coverage
META = {
    'rule': "hist: BFS over histories of BUILD(kind -> slot) for 9 kinds that make a FRESH type object every time (tuple / struct literals, "
            "list[str], dict[str,float], typing.Tuple after cache eviction, freshly subscripted generic dataclasses) and 3 long-lived ones, "
            "CONVERT(slot) with no / mapping-form / callable / sequence custom handlers (each runs 12 probe values), DROP(slot)+gc, and an "
            "EVICT of the generic-subclass lru cache (257 subscriptions); two slots; every CONVERT must return exactly the outcome vector "
            "of a pristine interpreter for the same (kind, handlers) and expected() must match; states deduplicated by a canonical form "
            "(slot kinds, which handler forms each live type was converted with, multiset of dead memoised kinds, eviction flag). "
            "sched: all schedules with <= B preemptions of (a) 2 threads x 2 lookups and 3 threads x 1 lookup on two colliding keys of "
            "KeyCache in unbounded mode and LRU mode with maxsize 0/1/2 (all key assignments), and (b) 2 threads doing build-convert-drop "
            "through the real make_converter; every call must return f(its own arguments), no exception, no deadlock, and at quiescence "
            "the LRU ring and dict must agree. Non-trivial: a history with a DROP before a BUILD / a schedule with >= 1 preemption; "
            "distinct key = canonical state / (scenario, outcome).",
    'assumptions': ["thread exploration at source-line granularity under the GIL; lines of KeyCache.__call__ each do at most one shared access group",
                    "canonical state merging is sound when the memo's behaviour depends only on live types and the kinds of dead entries; "
                    "id recycling is observed (counted), not assumed"],
    'bounds': {'quick': 'histories to depth 5 (last level: CONVERT transitions only); preemption bound 2 for two-thread KeyCache harnesses, 1 for three-thread harnesses and make_converter', 'thorough': 'histories to depth 6; preemption bounds 3 / 2'},
}

# ------------------------------------------------------------------ part 1: histories

T_ = t.TypeVar('T_')
PROBES: t.List[t.Any] = [[1, 'a', 2.0], ['a', 2.0, 1], ['a'], {'a': 1.0}, {'x': 1}, {'x': 'a'}, [1, 'a'], {'v': 1}, {'v': 'a'}, [1],
                         {'inner': {'x': 1}, 'n': 1}, 7, 0, -0.0, 0.0, 1, ['1.5'], [2.5], {'myField': 1}, {'n': 2}]

_FIX: t.Dict[str, t.Any] = {}


def fixtures(pane):
    if _FIX:
        return _FIX
    from pane.converters import Converter
    from pane.errors import ParseInterrupt, WrongTypeError

    class Times(Converter):
        def __init__(self, k):
            self.k = k

        def expected(self, plural=False):
            return f"int (x{self.k})"

        def try_convert(self, val):
            if type(val) in (int, float):
                return val * self.k
            raise ParseInterrupt()

        def collect_errors(self, val):
            return None if type(val) in (int, float) else WrongTypeError(self.expected(), val)

        def into_data(self, val):
            return val // self.k

    times3, times10 = Times(3), Times(10)

    def h10(ty, args=(), *, handlers=None):
        return times10 if ty is int and not args else NotImplemented

    def h_never(ty, args=(), *, handlers=None):
        return NotImplemented

    from mc.classes_gen import new_class
    G = new_class('G', (pane.PaneBase, t.Generic[T_]), {'__annotations__': {'v': T_}, '__module__': 'mc.generated'})
    Inner = type('Inner', (pane.PaneBase,), {'__annotations__': {'x': int}, '__module__': 'mc.generated'}, custom={int: times3})
    Outer = type('Outer', (pane.PaneBase,), {'__annotations__': {'inner': Inner, 'n': int}, '__module__': 'mc.generated'}, custom=h10)
    LONG = t.List[int]
    def _fill(self):
        self.items.append(self.n)           # the hook fills the (fresh) default container in place
    Fac = type('Fac', (pane.PaneBase,), {'__annotations__': {'n': int, 'items': t.List[int]}, 'items': pane.field(default_factory=list),
                                         '__post_init__': _fill, '__module__': 'mc.generated'}, in_format=('tuple', 'struct'))
    _FIX.update(Fac=Fac)
    Ren = type('Ren', (pane.PaneBase,), {'__annotations__': {'my_field': int}, '__module__': 'mc.generated'}, rename='camel')
    _FIX.update(Ren=Ren)
    import decimal
    _FIX.update(ULISTS=grammar.pin(t.Union[t.List[int], t.List[decimal.Decimal]]), LUNION=grammar.pin(t.List[t.Union[int, float]]))
    _FIX.update(G=G, Inner=Inner, Outer=Outer, LONG=LONG, h10=h10, h_never=h_never, times3=times3, times10=times10)
    return _FIX


def _fresh_typing_tuple():
    for f in t._cleanups:  # type: ignore[attr-defined]
        f()
    return t.Tuple[int, str]


def _fresh_generic(pane, arg):
    core.clear_subscription_memo()
    _DIRTY[0] = True
    return fixtures(pane)['G'][arg]


KINDS: t.Dict[str, t.Callable[[t.Any], t.Any]] = {
    'tup_a': lambda pane: tuple([int, str, float]),
    'tup_b': lambda pane: tuple([str, float, int]),
    'list_str': lambda pane: list[str],
    'dict_sf': lambda pane: dict[str, float],
    'struct_int': lambda pane: {'x': int},
    'struct_str': lambda pane: {'x': str},
    'typing_tuple': lambda pane: _fresh_typing_tuple(),
    'generic_int': lambda pane: _fresh_generic(pane, int),
    'generic_str': lambda pane: _fresh_generic(pane, str),
    'long_list': lambda pane: fixtures(pane)['LONG'],
    'float_t': lambda pane: float,
    'complex_t': lambda pane: complex,
    'inner_dc': lambda pane: fixtures(pane)['Inner'],
    'outer_dc': lambda pane: fixtures(pane)['Outer'],
    # two members that hold the same Python class but serialise it differently / a union below a list
    'union_lists': lambda pane: fixtures(pane)['ULISTS'],
    'list_union': lambda pane: fixtures(pane)['LUNION'],
    # a class whose input names are derived from a class-level rename style
    'ren_dc': lambda pane: fixtures(pane)['Ren'],
    # a default container that every new instance must get for itself (the hook appends to it)
    'fac_dc': lambda pane: fixtures(pane)['Fac'],
}
LONG_LIVED = ('long_list', 'inner_dc', 'outer_dc', 'union_lists', 'list_union', 'float_t', 'complex_t', 'ren_dc', 'fac_dc')
KIND_NAMES = list(KINDS)
HFORMS = ['plain', 'map', 'callable', 'seq', 'smap_a', 'smap_b', 'smap_c']     # smap_*: ONE shared dict object whose content is changed between calls
# alphabets per tier: (kinds that may be BUILT, handler forms at inner levels); the last level always tries all four handler forms
ALPHABET = {
    'quick': (['tup_a', 'tup_b', 'list_str', 'generic_int', 'inner_dc', 'outer_dc', 'float_t'], ['plain', 'callable', 'smap_a']),
    # (the same-key shared mapping 'smap_c' is tried at the last level of every history and in the handler-form sequences; at
    #  the inner levels of the depth-6 search a seventh form would multiply the thorough tier's running time by 2.5)
    'thorough': (KIND_NAMES, [f for f in HFORMS if f != 'smap_c']),
}


_SHARED_MAP: t.Dict[t.Any, t.Any] = {}


def handlers_for(pane, hform, fresh=False):
    fx = fixtures(pane)
    if hform == 'plain':
        return None
    if hform in ('smap_a', 'smap_b', 'smap_c'):
        # (smap_c has the KEYS of smap_a and another converter under them)
        content = {'smap_a': {int: fx['times3']}, 'smap_b': {int: fx['times10'], float: fx['times3']}, 'smap_c': {int: fx['times10']}}[hform]
        if fresh:
            return dict(content)
        _SHARED_MAP.clear()                # the application's registry dict: same object, new content
        _SHARED_MAP.update(content)
        return _SHARED_MAP
    if hform == 'map':
        return {int: fx['times3']}
    if hform == 'callable':
        return fx['h10']
    return [fx['h_never'], fx['h10']]


def outcome_vector(pane, ty, hform, fresh=False, reverse=False, only=None):
    """Outcome of converting every probe to `ty` with the given handler form + the converter's expected() string."""
    from pane.errors import ConvertError
    from pane.convert import make_converter, ConverterHandlers
    custom = handlers_for(pane, hform, fresh)
    vec = []
    order = list(reversed(PROBES)) if reverse else PROBES
    if only is not None:
        if only == len(PROBES):
            try:
                exp = make_converter(ty, ConverterHandlers.make(custom)).expected() if hform in ('plain', 'callable') else ''
            except Exception as e:  # noqa
                exp = f"<{type(e).__name__}>"
            return ['expected', exp]
        order = [PROBES[only]]
    for p in order:
        try:
            r = pane.from_data(values.fresh(p), ty, custom=custom)
            try:
                back = repr(pane.into_data(r, ty, custom=custom))     # the other direction goes through the same memoised converter
            except Exception as e2:  # noqa
                back = f"<{type(e2).__name__}>"
            vec.append(('ok', repr(r), back))
        except ConvertError as e:
            vec.append(('rej', core.sstr(e, 60)))
        except Exception as e:  # noqa
            vec.append(('raw', type(e).__name__))
    try:
        if hform in ('plain', 'callable'):
            exp = make_converter(ty, ConverterHandlers.make(custom)).expected()
        else:
            exp = ''
    except Exception as e:  # noqa
        exp = f"<{type(e).__name__}>"
    if only is not None:
        return list(vec[0])
    if reverse:
        vec.reverse()
    vec.append(('expected', exp))
    return tuple(vec)


_DIRTY = [True]        # classes (cyclic garbage) were created since the last full collection


def reset(pane):
    from pane.convert import make_converter
    import sys
    pc = sys.modules['pane.convert']
    make_converter.cache.clear()
    core.clear_subscription_memo()
    del pc._GLOBAL_HANDLERS[1:]
    if _DIRTY[0]:
        # only class objects (generic subclasses) live in reference cycles; tuples, aliases and dicts die by refcount
        gc.collect()
        _DIRTY[0] = False


def pristine_kind(kind):
    """Run inside a fresh interpreter: the outcome vectors of one kind, each probe sequence in REVERSE order with freshly
    built handler objects (so any dependence on what was converted before, or on handler object identity, shows up as a
    difference from what the history search observes)."""
    import os
    import json as _json
    pane = core.import_pane()
    warnings.simplefilter('ignore')
    fixtures(pane)
    out = {}
    for hf in HFORMS:
        vec = []
        for pi in range(len(PROBES) + 1):
            # every probe in its own forked child: nothing converted before it, not even another probe
            r, w = os.pipe()
            pid = os.fork()
            if pid == 0:
                try:
                    os.close(r)
                    reset(pane)
                    ty = KINDS[kind](pane)
                    full = outcome_vector(pane, ty, hf, fresh=True, only=pi)
                    os.write(w, _json.dumps(full).encode())
                finally:
                    os._exit(0)
            os.close(w)
            data = b''
            while True:
                chunk = os.read(r, 65536)
                if not chunk:
                    break
                data += chunk
            os.close(r)
            os.waitpid(pid, 0)
            vec.append(_json.loads(data.decode()))
        out[hf] = vec
    return out


def pristine_table(pane=None):
    import concurrent.futures
    import json
    import subprocess

    def one(kind):
        code = (f"import sys, json; sys.path.insert(0, {core.VERIF!r}); sys.dont_write_bytecode = True\n"
                f"from mc.checks import c10\nprint(json.dumps(c10.pristine_kind({kind!r})))")
        p = subprocess.run([core.PY, '-c', code], capture_output=True, text=True, timeout=600, cwd=core.VERIF,
                           env=dict(__import__('os').environ, PYTHONHASHSEED='0'))
        if p.returncode != 0:
            raise RuntimeError(f"pristine interpreter for {kind} failed: {p.stderr[-800:]}")
        return kind, json.loads(p.stdout.strip().splitlines()[-1])
    tab = {}
    with concurrent.futures.ThreadPoolExecutor(4) as ex:
        for kind, d in ex.map(one, KIND_NAMES):
            for hf, vec in d.items():
                tab[(kind, hf)] = tuple(tuple(x) for x in vec)
    return tab


class HState:
    """Replays a history on real objects."""

    def __init__(self, pane, table, res, alphabet=(KIND_NAMES, HFORMS)):
        self.alphabet = alphabet
        self.pane = pane
        self.table = table
        self.res = res
        self.slots: t.List[t.Any] = [None, None]
        self.kinds: t.List[t.Optional[str]] = [None, None]
        self.conv: t.List[t.Set[str]] = [set(), set()]
        self.dead: t.List[t.Tuple[str, t.Tuple[str, ...]]] = []
        self.dropped_ids: t.Set[int] = set()
        self.dead_ids: t.Dict[int, t.Tuple[str, t.Tuple[str, ...]]] = {}     # id of a dropped, memoised type -> what was memoised
        self.alias: t.List[t.Any] = [None, None]                              # per slot: the dead memoised entry whose id this object reuses
        self.evicted = False
        self.problem: t.Optional[str] = None

    def apply(self, op):
        pane = self.pane
        name = op[0]
        if name == 'BUILD':
            s = self.kinds.index(None)
            obj = KINDS[op[1]](pane)
            if id(obj) in self.dropped_ids:
                self.res['extra']['recycled_ids_observed'] = self.res['extra'].get('recycled_ids_observed', 0) + 1
            self.slots[s], self.kinds[s], self.conv[s] = obj, op[1], set()
            self.alias[s] = self.dead_ids.get(id(obj))
        elif name == 'CONVERT':
            s, hf = op[1], op[2]
            got = tuple(tuple(x) for x in outcome_vector(pane, self.slots[s], hf))
            want = self.table[(self.kinds[s], hf)]
            self.conv[s].add(hf)
            self.res['transitions'] += len(PROBES)
            self.res['validated'] += 1
            if got != want:
                diff = next((i for i, (g, w) in enumerate(zip(got, want)) if g != w), -1)
                what = f"probe {PROBES[diff]!r}" if 0 <= diff < len(PROBES) else 'expected()'
                self.problem = (f"CONVERT({self.kinds[s]}, handlers={hf}) on {what}: got {got[diff]!r}, a pristine interpreter gives "
                                f"{want[diff]!r}")
        elif name == 'DROP':
            s = op[1]
            if self.conv[s]:
                self.dead.append((self.kinds[s], tuple(sorted(self.conv[s]))))
                if self.kinds[s] not in LONG_LIVED:
                    self.dead_ids[id(self.slots[s])] = self.dead[-1]
            self.alias[s] = None
            if self.kinds[s] not in LONG_LIVED:
                self.dropped_ids.add(id(self.slots[s]))
            was_class = (self.kinds[s] or '').startswith('generic')
            self.slots[s], self.kinds[s], self.conv[s] = None, None, set()
            if was_class:
                gc.collect()
        elif name == 'EVICT':
            G = fixtures(pane)['G']
            for i in range(257):
                G[t.Literal[i]]          # overflow functools.lru_cache(256) of the generic-subclass memo
            self.evicted = True
            _DIRTY[0] = True
        else:
            raise KeyError(name)

    def enabled(self, last=False):
        ops = []
        if None in self.kinds:
            for k in self.alphabet[0]:
                ops.append(('BUILD', k))
        for s in (0, 1):
            if self.kinds[s] is not None:
                for hf in (HFORMS if last else self.alphabet[1]):
                    ops.append(('CONVERT', s, hf))
                ops.append(('DROP', s))
        if not self.evicted and any(k and k.startswith('generic') for k in self.kinds):
            ops.append(('EVICT',))
        return ops

    def canon(self):
        # 'alias' records an OBSERVED id reuse (this live type sits at the address of a dead memoised one): with it in the key,
        # merged states have equal futures even for a memo that is keyed on addresses
        slots = tuple(sorted(((k or '', tuple(sorted(c)), repr(a)) for k, c, a in zip(self.kinds, self.conv, self.alias))))
        return (slots, tuple(sorted(self.dead)), self.evicted)


def build(pane, table, res, hist, alphabet=(KIND_NAMES, HFORMS)):
    reset(pane)
    st = HState(pane, table, res, alphabet)
    for op in hist:
        st.apply(op)
        if st.problem:
            break
    return st


def run_hist(pane, res, first_kind, depth, tier='thorough', table=None):
    alphabet = ALPHABET[tier]
    if table is None:
        table = pristine_table(pane)
    else:
        table = {tuple(k): tuple(tuple(x) for x in v) for k, v in table}
    start = [('BUILD', first_kind)]
    seen = set()
    frontier = collections.deque([start])
    st = build(pane, table, res, start, alphabet)
    seen.add(st.canon())
    res['states'] += 1
    maxd = 1
    nontrivial = 0
    while frontier:
        hist = frontier.popleft()
        st = build(pane, table, res, hist, alphabet)
        last = len(hist) + 1 >= depth
        ops = st.enabled(last)
        del st
        if last:
            # last level: only CONVERT transitions are checked there, the others could not be followed by a check any more
            ops = [o for o in ops if o[0] == 'CONVERT']
        for op in ops:
            nh = hist + [op]
            nst = build(pane, table, res, nh, alphabet)
            res['transitions'] += 1
            res['evals'] += 1
            if nst.problem:
                core.add_violation(res, {'kind': 'history_dependent_result', 'op': op[0], 'hform': op[2] if op[0] == 'CONVERT' else None,
                                         'target_kind': nst.kinds[op[1]] if op[0] == 'CONVERT' else None},
                                   f"after history {fmt(nh[:-1])}: {nst.problem}",
                                   {'part': 'hist', 'first': first_kind, 'depth': len(nh), 'tier': tier, 'history': [list(o) for o in nh]}, len(nh))
                if len(res['violations']) >= 6:
                    return
                continue
            k = nst.canon()
            if k not in seen:
                seen.add(k)
                res['states'] += 1
                if any(o[0] == 'DROP' for o in nh):
                    nontrivial += 1
                    if len(res['nontrivial']) < 5000:
                        res['nontrivial'].add(repr(k))
                if len(nh) < depth:
                    frontier.append(nh)
                maxd = max(maxd, len(nh))
            del nst
    res['extra']['max_history_depth'] = max(res['extra'].get('max_history_depth', 0), maxd)
    res['outcomes'][f'hist_states_depth<={depth}'] += len(seen)
    if first_kind == 'tup_a':
        res['samples'].append({'history': fmt([('BUILD', 'tup_a'), ('CONVERT', 0, 'plain'), ('DROP', 0), ('BUILD', 'tup_b'), ('CONVERT', 0, 'plain')]),
                               'probes': [repr(p) for p in PROBES[:4]]})


def fmt(hist):
    return ' ; '.join(f"{o[0]}({', '.join(map(str, o[1:]))})" for o in hist)


# ------------------------------------------------------------------ part 2: schedules

def lru_invariant(kc) -> t.Optional[str]:
    """Quiescent consistency of KeyCache in LRU mode."""
    PREV, NEXT, KEY, RESULT = 0, 1, 2, 3
    root = kc._root
    keys = []
    link = root[NEXT]
    n = 0
    while link is not root:
        if link[NEXT][PREV] is not link or link[PREV][NEXT] is not link:
            return "ring is not a consistent doubly linked cycle"
        keys.append(link[KEY])
        link = link[NEXT]
        n += 1
        if n > 100:
            return "ring does not return to its root"
    if root[NEXT][PREV] is not root or root[PREV][NEXT] is not root:
        return "ring is not a consistent doubly linked cycle at the root"
    if set(keys) != set(kc.cache) or len(keys) != len(kc.cache):
        return f"ring holds keys {keys} but the dict holds {list(kc.cache)}"
    if kc.maxsize is not None and len(kc.cache) > kc.maxsize:
        return f"{len(kc.cache)} entries exceed maxsize {kc.maxsize}"
    for k, link in kc.cache.items():
        if link[KEY] != k:
            return f"dict entry {k!r} points at the link of {link[KEY]!r}"
    if kc.maxsize and kc.full != (len(kc.cache) >= kc.maxsize):
        return f"full flag is {kc.full} with {len(kc.cache)} of {kc.maxsize} entries"
    return None


def scenarios():
    out = []
    for mode in (None, 0, 1, 2):
        for shape, nlook in (((2, 2), 4), ((3, 1), 3)):
            for keys in itertools.product('ab', repeat=nlook):
                if keys[0] != 'a':
                    continue        # relabelling a <-> b gives the same scenario
                out.append({'kind': 'keycache', 'maxsize': mode, 'shape': list(shape), 'keys': ''.join(keys)})
    for pair in (('tup_a', 'tup_b'), ('tup_a', 'tup_a'), ('list_str', 'dict_sf'), ('struct_int', 'struct_str'), ('dc_shared', 'dc_shared')):
        out.append({'kind': 'make_converter', 'types': list(pair)})
    # two threads serialise / convert the SAME container object through one memoised converter (scheduling points also inside the
    # converters' own into_data / try_convert code)
    out.append({'kind': 'make_converter', 'types': ['shared_value', 'shared_value']})
    return out


def run_scenario(pane, sc, bound, res, only_prefix=None):
    from pane.util import KeyCache
    watched = {KeyCache.__call__.__code__}
    if sc['kind'] == 'keycache':
        nthreads, per = sc['shape']
        keys = sc['keys']

        def make(get_run):
            calls = []

            def f(k):
                calls.append(k)
                return (k, k.upper() * 2)
            kc = KeyCache(f, lambda k: k, sc['maxsize'])
            kc._lock = sched.CoopLock(get_run()) if False else None
            observed = []

            def body(i):
                def run_body():
                    out = []
                    for j in range(per):
                        k = keys[i * per + j]
                        out.append((k, kc(k)))
                    observed.append((i, out))
                    return out
                return run_body

            class LazyLock:
                """CoopLock bound to the run at first use (the Run object exists only after make() returns)."""
                def __init__(self):
                    self.lock = None

                def _l(self):
                    if self.lock is None:
                        self.lock = sched.CoopLock(get_run())
                    return self.lock

                def __enter__(self):
                    return self._l().acquire()

                def __exit__(self, *a):
                    self._l().release()
            kc._lock = LazyLock()

            def check(run):
                for i, out in observed:
                    for k, r in out:
                        if r != (k, k.upper() * 2):
                            return f"thread {i}: lookup of {k!r} returned {r!r}, f({k!r}) is {(k, k.upper() * 2)!r}"
                if len(observed) != nthreads:
                    return f"only {len(observed)} of {nthreads} threads completed"
                if sc['maxsize'] is None:
                    for k, v in kc.cache.items():
                        if v != (k, k.upper() * 2):
                            return f"cache maps {k!r} to {v!r}"
                    if set(kc.cache) != set(keys):
                        return f"cache holds {sorted(kc.cache)}, looked up {sorted(set(keys))}"
                    return None
                return lru_invariant(kc)
            return [body(i) for i in range(nthreads)], check
    else:
        kinds = sc['types']
        expect = {'tup_a': ([1, 'a', 2.0], (1, 'a', 2.0)), 'tup_b': (['a', 2.0, 1], ('a', 2.0, 1)), 'list_str': (['a'], ['a']),
                  'dict_sf': ({'a': 1.0}, {'a': 1.0}), 'struct_int': ({'x': 1}, {'x': 1}), 'struct_str': ({'x': 'a'}, {'x': 'a'})}

        def make(get_run):
            from pane.convert import make_converter
            make_converter.cache.clear()
            observed = []
            if kinds[0] == 'shared_value':
                shared = [[1, 2], [3], {'k': [4]}]
                LT = t.List[t.Any]
                want = [[1, 2], [3], {'k': [4]}]

                def sv_body(i):
                    def run_body():
                        d = pane.into_data(shared, LT)
                        r = pane.from_data(shared, LT)
                        c = pane.convert(shared, LT)
                        observed.append((i, d == want and r == want and c == want, (d, r, c)))
                        return repr(d)
                    return run_body

                def sv_check(run):
                    for i, ok, r in observed:
                        if not ok:
                            return f"thread {i} got {r!r}"
                    return None if len(observed) == 2 else f"only {len(observed)} of 2 threads completed"
                return [sv_body(0), sv_body(1)], sv_check
            if kinds[0] == 'dc_shared':
                # two threads use one dataclass for the first time concurrently (its converter is built on first use)
                import fractions
                Shared = type('Shared', (pane.PaneBase,), {'__annotations__': {'name': str, 'ratio': fractions.Fraction, 'count': int},
                                                           '__module__': 'mc.generated'})
                datum = {'name': 'a', 'ratio': '1/2', 'count': 7}
                want_repr = "Shared(name='a', ratio=Fraction(1, 2), count=7)"

                def dc_body(i):
                    def run_body():
                        r = pane.from_data(dict(datum), Shared)
                        d = pane.into_data(r, Shared)
                        observed.append((i, repr(r) == want_repr and d == datum, (repr(r), d)))
                        return repr(r)
                    return run_body

                def dc_check(run):
                    for i, ok, r in observed:
                        if not ok:
                            return f"thread {i} got {r!r}"
                    return None if len(observed) == 2 else f"only {len(observed)} of 2 threads completed"
                return [dc_body(0), dc_body(1)], dc_check

            def body(i):
                def run_body():
                    ty = KINDS[kinds[i]](pane)
                    probe, want = expect[kinds[i]]
                    r = pane.from_data(values.fresh(probe), ty)
                    ok = values.typed_eq(r, want)
                    del ty
                    r2 = pane.from_data(values.fresh(probe), KINDS[kinds[i]](pane))
                    observed.append((i, ok and values.typed_eq(r2, want), r))
                    return repr(r)
                return run_body

            def check(run):
                for i, ok, r in observed:
                    if not ok:
                        return f"thread {i} converting {kinds[i]} got {r!r}"
                if len(observed) != 2:
                    return f"only {len(observed)} of 2 threads completed"
                return None
            return [body(0), body(1)], check
    if sc.get('types', [None])[0] == 'shared_value':
        import pane.converters as _pc

        def _codes(co, acc):
            acc.add(co)
            for c in co.co_consts:
                if hasattr(c, 'co_code'):
                    _codes(c, acc)
        for cls_ in (_pc.SequenceConverter, _pc.DictConverter, _pc.AnyConverter):
            for meth in ('into_data', 'try_convert'):
                fn = cls_.__dict__.get(meth)
                if fn is not None:
                    _codes(fn.__code__, watched)
    # (a schedule of the real make_converter has thousands of scheduling points: at bound 2 the cap is lower there, so that the
    #  thorough tier ends in tens of minutes; a capped bound is reported as such and the bound below it is completed, see below)
    cap = 15000 if (sc['kind'] == 'make_converter' and bound >= 2) else 60000
    ex = sched.Explorer(make, watched, bound, max_schedules=cap)
    if only_prefix is not None:
        run, problem, outcome = ex.run_once(only_prefix)
        run2, problem2, outcome2 = ex.run_once(only_prefix)
        if (problem, outcome) != (problem2, outcome2):
            raise RuntimeError(f"schedule {only_prefix} is not deterministic: {problem!r}/{outcome} vs {problem2!r}/{outcome2}")
        return [(list(only_prefix), problem)] if problem else []
    # determinism self-test: the default schedule twice
    r1 = ex.run_once([])
    r2 = ex.run_once([])
    if (r1[1], r1[2], r1[0].choices) != (r2[1], r2[2], r2[0].choices):
        res['errors'].append(f"scenario {sc}: default schedule not reproducible")
        return []
    ex.explore()
    if ex.capped and bound > 0:
        # iterative context bounding: the cap was reached at this bound, so finish the bound below it completely and
        # say so (the capped exploration above still counts for violations, not for the coverage claim)
        ex_lo = sched.Explorer(make, watched, bound - 1, max_schedules=10 ** 9)
        ex_lo.explore()
        res['extra'].setdefault('capped_scenarios', set()).add(
            f"{sc}: bound {bound} capped after {ex.schedules} schedules; bound {bound - 1} complete with {ex_lo.schedules}")
        res['extra']['schedules_below_cap_bound'] = res['extra'].get('schedules_below_cap_bound', 0) + ex_lo.schedules
        for v in ex_lo.violations:
            if v not in ex.violations:
                ex.violations.append(v)
    else:
        k = f'scenarios_complete_at_preemption_bound_{bound}'
        res['extra'][k] = res['extra'].get(k, 0) + 1
    res['states'] += ex.schedules
    res['evals'] += ex.schedules
    res['validated'] += ex.schedules
    res['transitions'] += ex.points_total
    res['capped'] |= ex.capped
    res['extra']['schedules'] = res['extra'].get('schedules', 0) + ex.schedules
    res['extra']['max_points_per_schedule'] = max(res['extra'].get('max_points_per_schedule', 0), ex.max_points)
    for o, n in ex.outcomes.items():
        res['outcomes'][f"sched:{len(ex.outcomes)}-outcome scenario"] += 0
    res['nontrivial'].add(f"{sc}|{len(ex.outcomes)}")
    for o in ex.outcomes:
        res['nontrivial'].add(f"{sc.get('maxsize')}|{sc.get('keys', sc.get('types'))}|{o[:80]}")
    res['outcomes']['schedules'] += ex.schedules
    return ex.violations


VALSEQ_KINDS = ['union_lists', 'list_union', 'float_t', 'complex_t', 'inner_dc', 'long_list', 'fac_dc']


HSEQ_KINDS = ['inner_dc', 'outer_dc', 'ren_dc', 'fac_dc']


def run_hseq(pane, res, kind, table, depth):
    want = {tuple(k)[1]: tuple(tuple(x) for x in v) for k, v in table}
    fixtures(pane)
    ty = KINDS[kind](pane)
    n = 0
    for length in range(1, depth + 1):
        for seq in itertools.product(HFORMS, repeat=length):
            reset(pane)
            hist = []
            for hf in seq:
                got = tuple(tuple(x) for x in outcome_vector(pane, ty, hf))
                hist.append(hf)
                n += 1
                if got != want[hf]:
                    diff = next((i for i, (g, w) in enumerate(zip(got, want[hf])) if g != w), -1)
                    what = f"probe {PROBES[diff]!r}" if 0 <= diff < len(PROBES) else 'expected()'
                    core.add_violation(res, {'kind': 'handler_history_dependent_result', 'type': kind},
                                       f"{kind}: converting with handler forms {hist[:-1]} and then {hf!r}: {what} gives {got[diff]!r}; a pristine "
                                       f"interpreter gives {want[hf][diff]!r}", {'part': 'hseq', 'kind': kind, 'seq': list(seq), 'at': len(hist)}, len(hist))
                    break
    res['states'] += n
    res['transitions'] += n * len(PROBES)
    res['validated'] += n
    res['evals'] += n
    res['nontrivial'].add(f"hseq|{kind}")
    res['outcomes']['handler_form_sequences'] += n


def run_valseq(pane, res, kind, table, depth):
    """Every ordered sequence of <= depth probes (those the type accepts, plus two it refuses) is pushed through the memoised
    converter of one long-lived type, from_data then into_data at each step; each step must give what a pristine interpreter
    gives for that probe alone.  The converter is NOT rebuilt between sequences: later sequences extend the history."""
    want = {tuple(k): v for k, v in table}[(kind, 'plain')]
    ok = [i for i in range(len(PROBES)) if want[i][0] == 'ok']
    rej = [i for i in range(len(PROBES)) if want[i][0] != 'ok'][:2]
    alphabet = ok + rej
    fixtures(pane)
    ty = KINDS[kind](pane)
    n = 0
    for length in range(1, depth + 1):
        for seq in itertools.product(alphabet, repeat=length):
            hist = []
            for pi in seq:
                got = tuple(outcome_vector(pane, ty, 'plain', only=pi))
                hist.append(pi)
                n += 1
                if got != tuple(want[pi]):
                    core.add_violation(res, {'kind': 'value_history_dependent_result', 'type': kind},
                                       f"{kind}: after converting the probes {[PROBES[i] for i in hist[:-1]]!r}, probe {PROBES[pi]!r} gives "
                                       f"{got!r}; a pristine interpreter gives {tuple(want[pi])!r}",
                                       {'part': 'valseq', 'kind': kind, 'seq': list(seq), 'at': len(hist)}, len(hist))
                    break
    res['states'] += n
    res['transitions'] += 2 * n
    res['validated'] += n
    res['evals'] += n
    res['nontrivial'].add(f"valseq|{kind}|{len(alphabet)}")
    res['outcomes']['value_sequences'] += n



# ------------------------------------------------------------------ families of related generic dataclasses

FAMILY_PROBES = [{'x': 1}, {'x': 1, 'r': 2}, {'x': 1, 'text': 'hi'}, {'x': 'a', 'text': 'hi'}, {'x': 1, 'q': 0}, [1], {}]


def _family(pane):
    """Generic dataclasses that are related by inheritance and subscripted with EQUAL arguments: two children of one generic
    base, a parent and its open child, a class and a same-named class from another scope."""
    from mc.classes_gen import new_class
    T = t.TypeVar('T')
    Base = new_class('FamBase', (pane.PaneBase, t.Generic[T]), {'__annotations__': {'x': T}, '__module__': 'mc.generated'})
    SibA = new_class('FamSibA', (Base[T],), {'__annotations__': {'r': int}, 'r': 0, '__module__': 'mc.generated'})
    SibB = new_class('FamSibB', (Base[T],), {'__annotations__': {'text': str}, 'text': '', '__module__': 'mc.generated'})
    Child = new_class('FamChild', (Base[T],), {'__annotations__': {'q': int}, 'q': 5, '__module__': 'mc.generated'}, allow_extra=True)
    Twin = new_class('FamBase', (pane.PaneBase, t.Generic[T]), {'__annotations__': {'x': T, 'text': str}, 'text': 'twin', '__module__': 'mc.generated'})
    return {'base': Base, 'sib_a': SibA, 'sib_b': SibB, 'child': Child, 'twin': Twin}


def _family_outcomes(pane, order, args):
    from pane.errors import ConvertError
    fam = _family(pane)
    out = {}
    for name in order:
        cls = fam[name][args]
        vec = []
        for p in FAMILY_PROBES:
            try:
                x = pane.from_data(values.fresh(p), cls)
                vec.append(['ok', type(x).__name__.split('[')[0], repr(x), repr(pane.into_data(x, cls))])
            except ConvertError as e:
                vec.append(['rej', str(e)[:200]])
            except Exception as e:  # noqa
                vec.append(['raw', type(e).__name__ + ': ' + str(e)[:120]])
        out[name] = vec
    return out


def _in_child(fn):
    import json as _json
    r, w = os.pipe()
    pid = os.fork()
    if pid == 0:
        try:
            os.close(r)
            os.write(w, _json.dumps(fn()).encode())
        finally:
            os._exit(0)
    os.close(w)
    data = b''
    while True:
        chunk = os.read(r, 65536)
        if not chunk:
            break
        data += chunk
    os.close(r)
    os.waitpid(pid, 0)
    return _json.loads(data.decode()) if data else None


def run_families(pane, res):
    """Every order in which the members of the family can be subscripted and used first (each order in its own forked child)
    must give every member the outcomes it has when it is the only one ever used."""
    names = ['base', 'sib_a', 'sib_b', 'child', 'twin']
    for args, aname in ((int, 'int'), (str, 'str')):
        alone = {n: _in_child(lambda n=n: _family_outcomes(pane, [n], args)) for n in names}
        for k in (2, 3):
            for order in itertools.permutations(names, k):
                got = _in_child(lambda order=order: _family_outcomes(pane, list(order), args))
                res['states'] += 1
                res['evals'] += len(order) * len(FAMILY_PROBES)
                res['transitions'] += len(order) * len(FAMILY_PROBES)
                res['validated'] += len(order) * len(FAMILY_PROBES)
                res['nontrivial'].add(f"family|{aname}|{'>'.join(order)}")
                if got is None or any(alone[n] is None for n in order):
                    res['errors'].append(f"family child process failed for {order}")
                    continue
                for n in order:
                    want = alone[n][n]
                    if got[n] != want:
                        i = next(i for i, (a, b) in enumerate(zip(got[n], want)) if a != b)
                        core.add_violation(res, {'kind': 'generic_family_order', 'member': n, 'first': order[0]},
                                           f"{n}[{aname}] after the family members {list(order[:order.index(n)])} were subscripted with the same "
                                           f"argument: probe {FAMILY_PROBES[i]!r} gives {got[n][i]}; used alone it gives {want[i]}",
                                           {'part': 'families', 'order': list(order), 'args': aname}, 5 + len(order))


def plan(tier, seed):
    # the pristine outcome table is computed ONCE, in fresh interpreters, and handed to every history shard
    table = [[list(k), [list(x) for x in v]] for k, v in pristine_table().items()]
    shards = [{'part': 'hist', 'first': k, 'table': table} for k in ALPHABET[tier][0]]
    # value sequences: all ordered sequences of <= 3 probes through ONE memoised converter (both directions per step)
    for k in VALSEQ_KINDS:
        shards.append({'part': 'valseq', 'kind': k, 'table': [e for e in table if e[0][0] == k and e[0][1] == 'plain']})
    # handler-form sequences: all sequences of <= 3 handler forms for ONE long-lived dataclass (its converter is built once per
    # handler set; what one of them consumed or cached must not be missing for the next)
    for k in HSEQ_KINDS:
        shards.append({'part': 'hseq', 'kind': k, 'table': [e for e in table if e[0][0] == k]})
    shards.append({'part': 'readers'})
    shards.append({'part': 'families'})
    scs = scenarios()
    # the expensive three-thread and make_converter scenarios first, one scenario per shard
    order = sorted(range(len(scs)), key=lambda i: (scs[i]['kind'] == 'keycache', scs[i].get('shape') != [3, 1]))
    for i in order:
        shards.append({'part': 'sched', 'from': i, 'to': i + 1})
    return shards


def run_shard(shard, tier):
    pane = core.import_pane()
    warnings.simplefilter('ignore')
    res = core.new_result()
    if shard['part'] == 'hist':
        run_hist(pane, res, shard['first'], 5 if tier == 'quick' else 6, tier, shard.get('table'))
        return res
    if shard['part'] == 'valseq':
        run_valseq(pane, res, shard['kind'], shard['table'], 3 if tier == 'quick' else 4)
        return res
    if shard['part'] == 'hseq':
        run_hseq(pane, res, shard['kind'], shard['table'], 3)
        return res
    if shard['part'] == 'families':
        run_families(pane, res)
        return res
    if shard['part'] == 'readers':
        # sequences of the file readers on the same texts: what one does to shared state must not change what the next returns
        from mc.checks import c19
        c19.reader_histories(pane, res)
        c19.multi_doc_union_orders(pane, res)
        return res
    scs = scenarios()
    for i in range(shard['from'], shard['to']):
        sc = scs[i]
        three = sc.get('shape') == [3, 1]
        # preemption bound: two-thread harnesses 2 (thorough 3); three-thread harnesses and the real make_converter 1 (thorough 2)
        bound = (1 if (three or sc['kind'] == 'make_converter') else 2) + (0 if tier == 'quick' else 1)
        for choices, problem in run_scenario(pane, sc, bound, res):
            core.add_violation(res, {'kind': 'schedule_violation', 'scenario': sc['kind'], 'maxsize': sc.get('maxsize'),
                                     'what': problem.split(':')[0][:40]},
                               f"scenario {sc}, schedule {choices}: {problem}",
                               {'part': 'sched', 'scenario': i, 'choices': choices, 'bound': bound}, len(choices))
    if shard['from'] == 0:
        res['samples'].append({'scenario': scs[0], 'bound': bound, 'default_schedule': 'all-zero choices = run each thread to completion in turn'})
    return res


def replay(cell):
    pane = core.import_pane()
    warnings.simplefilter('ignore')
    res = core.new_result()
    if cell.get('part') == 'families':
        run_families(pane, res)
        return [v for v in res['violations'] if v['cell'].get('order') == cell['order'] and v['cell'].get('args') == cell['args']]
    if cell.get('reader_histories') or cell.get('multi_union') or cell.get('part') in ('valseq', 'hseq'):
        return []          # (history-dependent by construction: confirmed by re-running the originating shard)
    if cell['part'] == 'hist':
        # re-run the shard's search (same allocation history as the original fresh worker) to the recorded depth
        run_hist(pane, res, cell['first'], cell['depth'], cell.get('tier', 'thorough'))
        out = [v for lst in res['violations'].values() for v in lst]
        same = [v for v in out if v['cell']['history'] == cell['history']]
        if same or out:
            return same or out
        # and the bare history on its own
        res2 = core.new_result()
        st = build(pane, pristine_table(pane), res2, [tuple(o) for o in cell['history']])
        if st.problem:
            return [{'sig': {'kind': 'history_dependent_result'}, 'msg': st.problem, 'cell': cell, 'cost': 0}]
        return []
    if cell.get('reader_histories') or cell.get('multi_union') or cell.get('part') in ('valseq', 'hseq'):
        return []          # (history-dependent by construction: confirmed by re-running the originating shard, see core.run_replay)
    sc = scenarios()[cell['scenario']]
    v = run_scenario(pane, sc, cell['bound'], res, only_prefix=cell['choices'])
    return [{'sig': {'kind': 'schedule_violation', 'scenario': sc['kind'], 'maxsize': sc.get('maxsize'), 'what': p.split(':')[0][:40]},
             'msg': p, 'cell': cell, 'cost': 0} for _, p in v]
