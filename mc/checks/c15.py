"""
C15 - dataclass data layouts and field-name resolution: the full decision table against the reference naming model.
"""
from __future__ import annotations

import collections
import itertools
import types
import typing as t
import warnings

from mc import core, grammar, values, classes_gen, refmodel
from mc.refmodel import OK, REJ, UNSPEC
from mc.checks import c05

ID = 'C15'
META = {
    'rule': "configurations = class naming (none / rename / in_rename / two in_renames / out_rename / in+out, over the five styles: 26) x "
            "field naming (none / rename / aliases / in_names / out_name and combinations: 10) x allow_extra x in_format "
            "{struct, tuple, struct+tuple} x kw-only placement, on a class with one required and one defaulted multi-word field; "
            "data = mappings over ALL ordered key pairs and all key triples (in both orders; quick: triples over a reduced universe) of the candidate-name universe (Python names, aliases, "
            "explicit in_names, field rename, the five styled forms of both fields, out_name, an unknown key - so every duplicate pair "
            "occurs), each with valid and ill-kinded values; real sequences (list and tuple) of every length 0..max+1; str / bytes / "
            "bytearray of fitting length; oracle = reference model (names computed from the user's configuration per docs): accept "
            "<=> every key resolves (or extras allowed) and no two keys name one field and required fields present and values "
            "accepted / sequence accepted <=> tuple layout enabled, real sequence, required <= len <= positional count; image "
            "checked field by field incl. the set-field record; into_data uses out_format and the model output names and omits "
            "excluded fields. Non-trivial: >= 2 keys or a sequence; key = (class naming kind, field naming kind, in_format, verdict, data shape).",
    'assumptions': ["whether the Python name stays accepted next to a class-level rename / field rename= is UNSPEC (docs silent); explicit in_names= excludes it (docs)"],
    'bounds': {'quick': 'key subsets of size <= 2 + size 3 over a reduced 9-name universe', 'thorough': 'all key subsets of size <= 3'},
}

STY = classes_gen.STYLES
ALLOW = [False, True]
INFMT = [['struct'], ['tuple'], ['struct', 'tuple']]
KW = [(False, False), (False, True)]


_TV = t.TypeVar('_TV')


_LA: t.List[t.Any] = []


def _lookalike(pane):
    if not _LA:
        _LA.append(grammar.pin(type('LookAlike', (pane.PaneBase,), {'__annotations__': {'my_field': str, 'other_one': int}, 'other_one': 7,
                                                                     '__module__': 'mc.generated'})))
    return _LA[0]


def configs():
    idx = 0
    for cn, fn, ae, inf, (kw1, kw2) in itertools.product(c05.CLASS_NAMING, c05.FIELD_NAMING, ALLOW, INFMT, KW):
        f1 = dict(name='my_field', type='str', default=None, kw_only=kw1, **fn)
        f2 = dict(name='other_one', type='int', default=['value', '7'], kw_only=kw2)
        spec = dict(name='Tbl', opts={'in_format': inf, 'allow_extra': ae, **cn}, fields=[f1, f2])
        yield idx, spec
        idx += 1
        if not fn and not kw2:
            # the same class with a field the class initialises itself (init=False) between the two: positional data skips it
            hidden = dict(name='hidden', type=['list', 'int'], default=None, init=False, exclude=True, compare=False, repr=False, kw_only=False)
            yield idx, dict(spec, fields=[f1, hidden, f2], init_false_setter=[['hidden', '[]']])
            idx += 1
        if not fn and not kw1:
            # the second field excluded from OUTPUT: input names and binding are not affected
            yield idx, dict(spec, fields=[f1, dict(f2, exclude=True)])
            idx += 1
            if 'tuple' in inf:
                # ... and with the positional OUTPUT layout: the excluded field is left out of the sequence as well
                yield idx, dict(spec, opts=dict(spec['opts'], out_format='tuple'), fields=[f1, dict(f2, exclude=True)])
                idx += 1
        if not kw1 and not kw2:
            # the same class written as a generic one (second field typed by a type variable) and subscripted with int: naming and
            # layout rules are those of the plain class
            yield idx, dict(spec, generic=True)
            idx += 1


def universe(spec):
    names = ['my_field', 'other_one', 'al_x', 'alX', 'in_x', 'only_other', 'ren_x', 'renX', 'out_x', 'zz', '\xb5m', '\u03bcm']
    for n in ('my_field', 'other_one'):
        for s in STY:
            names.append(classes_gen.style_name(n, s))
    out = []
    for n in names:
        if n not in out:
            out.append(n)
    return out


REDUCED = ['my_field', 'other_one', 'al_x', 'myField', 'otherOne', 'in_x', 'ren_x', 'zz', 'MY_FIELD']


def family(name):
    """Which field a candidate name could belong to: decides the value we attach."""
    if name in ('other_one', 'OTHER_ONE', 'other-one', 'otherOne', 'OtherOne'):
        return 2
    return 1


def data_for(spec, tier):
    uni = universe(spec)
    # mappings are ordered: which of two names of one field comes first matters to a duplicate check, so all ORDERED pairs
    sets = [()] + [(a,) for a in uni] + list(itertools.permutations(uni, 2))
    tri = list(itertools.combinations(uni if tier == 'thorough' else REDUCED, 3))
    sets += tri + [tuple(reversed(x)) for x in tri]
    seen = set()
    for ks in sets:
        if ks in seen:
            continue
        seen.add(ks)
        yield {k: ('v' if family(k) == 1 else 4) for k in ks}
        if len(ks) <= 1 or (len(ks) == 2 and len(seen) % 7 == 0):
            # the same keys in mappings that are not dicts
            yield types.MappingProxyType({k: ('v' if family(k) == 1 else 4) for k in ks})
            yield values.BareMapping({k: ('v' if family(k) == 1 else 4) for k in ks})
        if ks:
            # one ill-kinded value
            d = {k: ('v' if family(k) == 1 else 4) for k in ks}
            d[ks[0]] = 5 if family(ks[0]) == 1 else 'bad'
            yield d
    for n in range(0, 4):
        vals = ['v', 4, True][:n]
        yield list(vals)
        yield tuple(vals)
    yield [5, 4]
    yield ['v', 'bad']
    # real sequences that are neither list nor tuple bind positionally like them
    yield collections.deque(['v'])
    yield collections.deque(['v', 4])
    yield collections.deque([5, 4])
    yield 'v4'
    yield b'v4'
    yield bytearray(b'v')
    yield 'v'
    yield 7
    yield None


def plan(tier, seed):
    return [{'i': i, 'n': 48} for i in range(48)]


def run_config(pane, res, idx, spec, tier, only=None):
    from pane.errors import ConvertError
    try:
        if spec.get('generic'):
            gspec = dict(spec, fields=[dict(f, type='__T__') if f['name'] == 'other_one' else f for f in spec['fields']])
            gen = classes_gen.build_class(gspec, lambda a: _TV if a == '__T__' else grammar.build(a), values.eval_expr, grammar.REGISTRY,
                                          bases=(pane.PaneBase, t.Generic[_TV]))
            cls = grammar.pin(gen[int])
        else:
            cls = classes_gen.build_class(spec, grammar.build, values.eval_expr, grammar.REGISTRY)
    except (TypeError, ValueError):
        res['outcomes']['class_refused'] += 1
        return
    opts = spec['opts']
    sig_cfg = c05.cube_sig(dict(spec, opts=dict(opts, out_format=opts.get('out_format', 'struct'))))
    sig_cfg = {k: sig_cfg[k] for k in ('in_format', 'class_naming', 'field_naming')}
    sig_cfg['allow_extra'] = opts['allow_extra']
    union_done = False
    if only is None or only == -1:
        run_reuse(pane, res, idx, spec, cls)
    for di, d in enumerate(data_for(spec, tier)):
        if only is not None and di != only:
            continue
        res['states'] += 1
        r = refmodel.ref_spec(spec, list(d) if isinstance(d, collections.deque) else d)
        try:
            out = ('ok', pane.from_data(values.fresh(d), cls))
        except ConvertError as e:
            out = ('rej', e)
        except Exception as e:  # noqa
            out = ('raw', e)
        res['evals'] += 1
        res['transitions'] += 1
        shape = f"map{len(d)}" if isinstance(d, dict) else f"{type(d).__name__}{len(d) if hasattr(d, '__len__') else ''}"
        res['outcomes'][f"{r[0]}/{out[0]}"] += 1
        if r[0] == UNSPEC:
            res['unspec'][r[1]] += 1
            continue
        res['validated'] += 1
        if (isinstance(d, dict) and len(d) >= 2) or isinstance(d, (list, tuple)):
            res['nontrivial'].add(f"{sig_cfg['class_naming']}|{sig_cfg['field_naming']}|{sig_cfg['in_format']}|{opts['allow_extra']}|{r[0]}|{shape}")
        cell = {'idx': idx, 'di': di, 'd': values.expr(d)}
        desc = f"class opts {opts} field1 {dict((k, v) for k, v in spec['fields'][0].items() if k in ('rename', 'aliases', 'in_names', 'out_name'))}" \
               f" kw_only={[f['kw_only'] for f in spec['fields']]}: from_data({values.expr(d)[:70]})"
        if out[0] == 'raw':
            core.add_violation(res, {'kind': 'foreign_exception', 'exc': type(out[1]).__name__, 'site': core.site_of(out[1])},
                               f"{desc} raised {type(out[1]).__name__}: {core.sstr(out[1], 100)}", cell, len(values.expr(d)))
            continue
        if r[0] == OK:
            if out[0] != 'ok':
                core.add_violation(res, {'kind': 'rejects_resolvable_data', 'shape': shape[:4], **sig_cfg},
                                   f"{desc} was rejected ({core.sstr(out[1], 120)!r}) but every key resolves to a distinct field and the values fit", cell, len(values.expr(d)))
                continue
            x = out[1]
            bad = None
            if type(x) is not cls:
                bad = f"returned {type(x).__name__}"
            else:
                for name, want in r[1].fields.items():
                    if not values.typed_eq(getattr(x, name), want):
                        bad = f"field {name} is {getattr(x, name)!r}, expected {want!r}"
                if set(x.__pane_set__) != set(r[1].set_fields):
                    bad = bad or f"set-field record {sorted(x.__pane_set__)} != {sorted(r[1].set_fields)}"
            if bad:
                core.add_violation(res, {'kind': 'wrong_binding', 'shape': shape[:4], **sig_cfg}, f"{desc}: {bad}", cell, len(values.expr(d)))
                continue
            # output side: configured layout, output names, excluded fields omitted
            try:
                dd = pane.into_data(x, cls)
                p = refmodel._check_serial_dc(spec, x, dd, '$')
            except Exception as e:  # noqa
                p = f"into_data raised {type(e).__name__}: {e}"
            if p:
                core.add_violation(res, {'kind': 'wrong_output_form', **sig_cfg}, f"{desc}: into_data -> {p}", cell, len(values.expr(d)))
            elif not union_done:
                # the same instance written through Union[<a plain class with the same Python field names>, cls]: it is an instance
                # of cls, so the output is cls's configured layout and names, not the look-alike's
                union_done = True
                U = grammar.pin(t.Union[_lookalike(pane), cls])
                try:
                    du = pane.into_data(x, U)
                    pu = None if (values.typed_eq(du, dd) or du == dd) else f"{du!r}, but into_data(x, its own class) is {dd!r}"
                except Exception as e:  # noqa
                    pu = f"raised {type(e).__name__}: {core.sstr(e, 80)}"
                res['transitions'] += 1
                if pu:
                    core.add_violation(res, {'kind': 'output_through_union_uses_other_class', **sig_cfg},
                                       f"{desc}: into_data(x, Union[LookAlike, cls]) -> {pu}", cell, len(values.expr(d)))
        else:
            if out[0] == 'ok':
                core.add_violation(res, {'kind': 'accepts_unresolvable_data', 'why': r[1], 'shape': shape[:4], **sig_cfg},
                                   f"{desc} returned {out[1]!r} but the reference table says: {r[1]}", cell, len(values.expr(d)))


def run_reuse(pane, res, idx, spec, cls):
    """ONE mapping object converted, edited in place by its owner, and converted again (and a fresh mapping with the same keys
    after it): each conversion is judged by the reference table on the keys the mapping has at that moment."""
    from pane.errors import ConvertError
    if 'struct' not in spec['opts']['in_format']:
        return
    firm = classes_gen.input_names(spec['fields'][0], spec['opts'])[0]
    firm2 = classes_gen.input_names(spec['fields'][-1], spec['opts'])[0]
    if not firm or not firm2:
        return
    d = {firm[0]: 'v', firm2[0]: 4}
    steps = [('as built', lambda: None), ('unknown key added', lambda: d.__setitem__('zz', 1)), ('unknown key removed', lambda: d.pop('zz')),
             ('second name of the first field added', (lambda: d.__setitem__(firm[1], 'v')) if len(firm) > 1 else None),
             ('... and removed', (lambda: d.pop(firm[1])) if len(firm) > 1 else None),
             ('defaulted field removed', lambda: d.pop(firm2[0])), ('required field removed', lambda: d.pop(firm[0]))]
    hist = []
    for label, act in steps:
        if act is None:
            continue
        act()
        hist.append(label)
        for which, datum in (('the same object', d), ('a fresh mapping with these keys', dict(d))):
            r = refmodel.ref_spec(spec, dict(datum))
            try:
                out = ('ok', pane.from_data(datum, cls))
            except ConvertError as e:
                out = ('rej', e)
            except Exception as e:  # noqa
                out = ('raw', e)
            res['evals'] += 1
            res['transitions'] += 1
            if r[0] == UNSPEC:
                continue
            res['validated'] += 1
            res['nontrivial'].add(f"reuse|{label}|{which[:8]}|{r[0]}")
            want = 'ok' if r[0] == OK else 'rej'
            okv = out[0] == want and (want != 'ok' or all(values.typed_eq(getattr(out[1], n), w) for n, w in r[1].fields.items()))
            if not okv:
                core.add_violation(res, {'kind': 'reused_mapping_object', 'step': label, 'which': which[:8]},
                                   f"class opts {spec['opts']}: one mapping object converted repeatedly while its owner edits it; after {hist}, "
                                   f"from_data({datum!r}) [{which}] -> {out[0]} {core.srepr(out[1], 60)}; the reference table says {want}"
                                   f"{' ' + str(r[1]) if want == 'rej' else ''}", {'idx': idx, 'di': -1, 'd': None, 'reuse': True}, 30 + len(hist))
                return


def run_shard(shard, tier):
    pane = core.import_pane()
    warnings.simplefilter('ignore')
    res = core.new_result()
    from pane.convert import make_converter
    n = 0
    for idx, spec in configs():
        if idx % shard['n'] != shard['i']:
            continue
        try:
            run_config(pane, res, idx, spec, tier)
        except Exception as e:  # noqa
            core.add_violation(res, {'kind': 'oracle_exception', 'exc': type(e).__name__},
                               f"configuration {idx} raised {type(e).__name__}: {core.sstr(e)}", {'idx': idx, 'di': None, 'd': None}, 99)
        n += 1
        if n % 50 == 0:
            make_converter.cache.clear()
    if shard['i'] == 0:
        res['samples'].append({'config': next(iter(configs()))[1]['opts'], 'universe': universe(None), 'example_data': ["{'my_field': 'v', 'myField': 'v'}", "['v', 4, True]", "'v4'"]})
    return res


def replay(cell):
    pane = core.import_pane()
    warnings.simplefilter('ignore')
    res = core.new_result()
    for idx, spec in configs():
        if idx == cell['idx']:
            for tier in ('quick', 'thorough'):
                run_config(pane, res, idx, spec, tier)
                out = [v for lst in res['violations'].values() for v in lst]
                same = [v for v in out if v['cell'].get('d') == cell.get('d')]
                if same:
                    return same
            return out
    return []
