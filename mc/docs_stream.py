"""
Several YAML documents in one stream (from_yaml_all) are one conversion of the LIST of documents: when it fails, the error
tree is that of from_data(list_of_documents, List[T]) - a product node keyed by document position - and its text names every
failing document.  Used by C07 (tree) and C08 (text).
"""
from __future__ import annotations

import io
import typing as t

from mc import core, grammar, values, trees

DOC_SETS = [
    ('int', [[1, 'x'], ['x', 1, 'y'], ['x'], [1, 2, [3]], [None, 1]]),
    (['dict', 'str', 'int'], [[{'a': 1}, {'a': 'x'}], [{'a': 'x'}, {'b': []}, {'c': 1}], [[1], {'a': 1}]]),
    ('dc_struct', [[{'a': 1, 'b': 's'}, {'a': 'bad', 'b': 's'}], [{'a': 1}, {'b': 's'}], [{'a': 1, 'b': 's', 'zz': 0}, {'a': 1, 'b': 's'}, 5]]),
    (['list', 'int'], [[[1], [1, 'x']], [['x'], ['y']], [[], 'nope']]),
]


def run(pane, res, want_text: bool):
    import yaml
    from pane.errors import ConvertError
    for ast, sets in DOC_SETS:
        T = grammar.build(ast)
        for docs in sets:
            text = ''.join('--- ' + yaml.safe_dump(d, default_flow_style=True).strip().replace('\n...', '') + '\n' for d in docs)
            cell = {'docs_stream': True, 'ast': ast, 'docs': values.expr(docs)}
            res['states'] += 1
            res['evals'] += 1
            res['validated'] += 1
            res['transitions'] += 2
            res['nontrivial'].add(f"docs_stream|{grammar.render(ast)}|{len(docs)}")
            try:
                pane.from_data(values.fresh(docs), list[T])
                continue
            except ConvertError as e:
                ref = e
            for name, fn in (('pane.from_yaml_all', lambda: pane.from_yaml_all(io.StringIO(text), T)),) + \
                    ((('Cls.from_yaml_all', lambda: T.from_yaml_all(io.StringIO(text))),) if hasattr(T, '__pane_info__') else ()):
                desc = f"{name} of the documents {values.expr(docs)[:80]} as {grammar.render(ast)}"
                try:
                    got = fn()
                    core.add_violation(res, {'kind': 'documents_accepted', 'entry': name}, f"{desc} returned {core.srepr(got, 60)}; the list of documents is "
                                       f"not a List[T] ({core.sstr(ref, 80)!r})", cell, len(docs))
                    continue
                except ConvertError as e:
                    err = e
                except Exception as e:  # noqa
                    core.add_violation(res, {'kind': 'documents_raise', 'entry': name, 'exc': type(e).__name__},
                                       f"{desc} raised {type(e).__name__}: {core.sstr(e, 80)}", cell, len(docs))
                    continue
                if not want_text and not trees.node_eq(err.tree, ref.tree):
                    core.add_violation(res, {'kind': 'documents_tree', 'entry': name},
                                       f"{desc}: error tree {core.srepr(err.tree, 120)} is not the tree of converting the list of documents "
                                       f"({core.srepr(ref.tree, 120)}): one child per failing document, keyed by its position", cell, len(docs))
                if want_text:
                    a, b = core.sstr(err, 4000), core.sstr(ref, 4000)
                    if a != b:
                        core.add_violation(res, {'kind': 'documents_text', 'entry': name},
                                           f"{desc}: the message {a[:160]!r} does not name what converting the list of documents names ({b[:160]!r})",
                                           cell, len(docs))


def replay(pane, want_text: bool):
    res = core.new_result()
    run(pane, res, want_text)
    return [v for lst in res['violations'].values() for v in lst]
