"""
Reference model for E1 (normative text: DESIGN.md Appendix A).  An independent, boring interpreter of the type AST:

    ref(ast, v)    -> ('ok', image) | ('rej', why) | ('unspec', class)
    members(ast)   -> data values that denote members (bounded, built bottom-up)
    match(image, actual) -> None if `actual` is the exactly-typed deep image, else a path/description string
    serial(ast, x) -> expected interchange form of a typed value (for C05)

Written from docs/ and the property statements, not from pane's code.  Stdlib constructors are called by the model
itself because the documented rule *is* "constructible by the stdlib type".
"""
from __future__ import annotations

import collections
import datetime
import decimal
import fractions
import pathlib
import re
import types
import typing as t

from mc import grammar, values, classes_gen
from mc.values import kind

OK, REJ, UNSPEC = 'ok', 'rej', 'unspec'


class DcImage:
    """Expected image of a dataclass: exact class, field images, record of explicitly set fields."""
    __slots__ = ('leaf', 'fields', 'set_fields')

    def __init__(self, leaf, fields, set_fields):
        self.leaf = leaf
        self.fields = fields
        self.set_fields = set_fields

    def __repr__(self):
        return f"DcImage({self.leaf}, {self.fields!r}, set={sorted(self.set_fields)})"


def _rej(why):
    return (REJ, why)


def _unspec(cls):
    return (UNSPEC, cls)


# ------------------------------------------------------------------ scalars (Appendix A.1)

def _try(fn, v):
    try:
        return (OK, fn(v))
    except Exception as e:  # the documented rule: accepted iff the stdlib constructor accepts it
        return _rej(f"{type(e).__name__}")


def _enum_like(members_vals, v, wrap):
    """members_vals: list of (literal, result).  wrap == 'enum': an enum converts through the types of its values, so a
    float / complex that merely equals an int value is NOT a member (strictness); a bool is an int (UNSPEC)."""
    eqs = []
    try:
        for lit, res in members_vals:
            if type(lit) is type(v) and lit == v:
                return (OK, res)
            if lit == v:
                eqs.append(lit)
    except Exception:
        pass
    if eqs:
        if wrap == 'enum' and kind(v) in ('float', 'complex') and all(type(e) is int for e in eqs):
            return _rej('float/complex is not an int-valued member')
        if wrap is None and kind(v) in ('int', 'float', 'complex', 'bool'):
            # Literal[1] is the int 1 (PEP 586 keeps Literal[0] and Literal[False] apart): 1.0 and True are not members
            return _rej('a number of another kind is not that literal')
        return _unspec('literal_eq_other_type')
    return _rej('no member')


def ref_leaf(name, v):
    k = kind(v)
    if name == 'any':
        return (OK, v)
    if name == 'int':
        if k == 'int':
            return (OK, v)
        return _unspec('bool_as_number') if k == 'bool' else _rej('kind')
    if name == 'float':
        if k == 'float':
            return (OK, v)
        if k == 'int':
            return _try(float, v)
        return _unspec('bool_as_number') if k == 'bool' else _rej('kind')
    if name == 'complex':
        if k == 'complex':
            return (OK, v)
        if k in ('int', 'float'):
            return _try(complex, v)
        return _unspec('bool_as_number') if k == 'bool' else _rej('kind')
    if name == 'str':
        return (OK, v if type(v) is str else str(v)) if k == 'str' else _rej('kind')
    if name == 'bytes':
        return (OK, bytes(v)) if k in ('bytes', 'bytearray') else _rej('kind')
    if name == 'bytearray':
        return (OK, bytearray(v)) if k in ('bytes', 'bytearray') else _rej('kind')
    if name == 'bool':
        if k == 'bool':
            return (OK, v)
        if k == 'int' and v in (0, 1):
            return _unspec('int01_as_bool')
        return _rej('kind')
    if name == 'none':
        return (OK, None) if v is None else _rej('kind')
    if name == 'decimal':
        if k in ('int', 'float', 'str'):
            return _try(decimal.Decimal, v)
        return _unspec('bool_as_number') if k == 'bool' else _rej('kind')
    if name == 'fraction':
        if k in ('int', 'float', 'str'):
            return _try(fractions.Fraction, v)
        return _unspec('bool_as_number') if k == 'bool' else _rej('kind')
    if name == 'sub_date':
        # a subclass of a date/time type is read like its base and comes out as the subclass
        return _try(grammar.SubDate.fromisoformat, v) if k == 'str' else _rej('kind')
    if name in ('date', 'time', 'datetime'):
        cls = getattr(datetime, name)
        return _try(cls.fromisoformat, v) if k == 'str' else _rej('kind')
    if name == 'pattern':
        return _try(re.compile, v if type(v) is str else str(v)) if k == 'str' else _rej('kind')
    if name == 'pattern_bytes':
        if k == 'bytes':
            return _try(re.compile, v)
        return _unspec('bytearray_pattern') if k == 'bytearray' else _rej('kind')
    if name in ('purepath', 'pureposixpath', 'path', 'pathlike'):
        cls = {'purepath': pathlib.PurePath, 'pureposixpath': pathlib.PurePosixPath, 'path': pathlib.Path,
               'pathlike': pathlib.PurePath}[name]
        return _try(cls, v) if k == 'str' else _rej('kind')
    if name == 'enum_int':
        return _enum_like([(m.value, m) for m in grammar.EnumInt], v, 'enum')
    if name == 'enum_str':
        return _enum_like([(m.value, m) for m in grammar.EnumStr], v, None)
    if name == 'enum_strmix':
        return _enum_like([(m.value, m) for m in grammar.EnumStrMix], v if type(v) is not grammar.EnumStrMix else v.value, 'enum')
    if name == 'enum_intmix':
        return _enum_like([(m.value, m) for m in grammar.EnumIntMix], v, 'enum')
    if name == 'enum_num':
        # (an int is also what the float-valued member's own type accepts: 2 would be 2.0 - no member; 1 is A)
        return _enum_like([(m.value, m) for m in grammar.EnumNum], v, 'enum')
    if name == 'enum_swap':
        return _enum_like([(m.value, m) for m in grammar.EnumSwap], v, 'enum')
    if name == 'enum_mixed':
        return _enum_like([(m.value, m) for m in grammar.EnumMixed], v, 'enum')
    if name == 'lit_str':
        return _enum_like([('a', 'a'), ('b', 'b')], v, None)
    if name == 'lit_mixed':
        return _enum_like([(1, 1), ('a', 'a'), (None, None)], v, None)
    if name == 'lit_long':
        return _enum_like([(x, x) for x in (0, False, 1, 2, 3, 4, 5, 'a', 'b', None)], v, None)
    if name == 'sub_str':
        return (OK, grammar.SubStr(v)) if k == 'str' else _rej('kind')
    if name == 'sub_int':
        if k == 'int':
            return (OK, grammar.SubInt(v))
        return _unspec('bool_as_number') if k == 'bool' else _rej('kind')
    if name == 'sub_float':
        if k == 'float':
            return (OK, grammar.SubFloat(v))
        if k == 'int':
            r = _try(float, v)
            return (OK, grammar.SubFloat(r[1])) if r[0] == OK else r
        return _unspec('bool_as_number') if k == 'bool' else _rej('kind')
    if name in ('bare_list', 'sub_list'):
        cls = list if name == 'bare_list' else grammar.SubList
        return (OK, cls(v)) if k == 'seq' else _rej('kind')
    if name == 'bare_tuple':
        return (OK, tuple(v)) if k == 'seq' else _rej('kind')
    if name in ('bare_set', 'bare_frozenset'):
        if k != 'seq':
            return _rej('kind')
        return _try(set if name == 'bare_set' else frozenset, v)     # unhashable element -> rejected
    if name in ('bare_dict', 'sub_dict'):
        cls = dict if name == 'bare_dict' else grammar.SubDict
        return (OK, cls(v)) if k == 'map' else _rej('kind')
    if name == 'empty_tuple':
        return (OK, ()) if k == 'seq' and len(v) == 0 else _rej('kind/len')
    if name in ('lit_v1', 'lit_v2', 'lit_1', 'lit_2'):
        lv = {'lit_v1': 'v1', 'lit_v2': 'v2', 'lit_1': 1, 'lit_2': 2}[name]
        return _enum_like([(lv, lv)], v, None)
    if name in grammar.TAGGED:
        return ref_tagged(name, v)
    if name in grammar.DC_SPECS:
        return ref_dc(name, v)
    raise KeyError(name)


def ref_tagged(name, v):
    """Tagged unions (docs/using/tagged.md): the tag alone selects the variant; internal layout keeps the tag among the variant's
    own keys (and strips it before the variant sees the rest), external is {tag: body}, adjacent is {'t': tag, 'c': body}."""
    layout, variants = grammar.TAGGED[name]
    if kind(v) != 'map':
        return _rej('kind')
    try:
        if layout == 'internal':
            if 'x' not in v:
                return _rej('tag_missing')
            tag = v['x']
            body = {kk: x for kk, x in v.items() if not (isinstance(kk, str) and kk == 'x')}
        elif layout == 'external':
            if len(v) != 1:
                return _rej('external_shape')
            (tag, body), = v.items()
        else:
            if len(v) != 2 or 't' not in v or 'c' not in v:
                return _rej('adjacent_shape')
            tag, body = v['t'], v['c']
    except TypeError:
        return _rej('unhashable')
    hit = None
    other = False
    for tg, leaf in variants.items():
        try:
            if type(tg) is type(tag) and tg == tag:
                hit = leaf
            elif tg == tag:
                other = True
        except Exception:  # noqa
            pass
    if hit is None:
        return _unspec('tag_equal_other_type') if other else _rej('unknown_tag')
    return ref_dc(hit, body)


# ------------------------------------------------------------------ composites (A.2 - A.5)

_SEQ_IMAGE = {'list': list, 'tuplevar': tuple, 'set': set, 'frozenset': frozenset, 'deque': collections.deque}
_MAP_IMAGE = {'dict': dict, 'ordereddict': collections.OrderedDict,
              'defaultdict': lambda d: collections.defaultdict(None, d), 'counter': collections.Counter}


def _all(results):
    """Combine element results: any firm rejection -> rej; else any unspec -> unspec; else list of images."""
    unspec = None
    imgs = []
    for r in results:
        if r[0] == REJ:
            return r
        if r[0] == UNSPEC:
            unspec = unspec or r
        else:
            imgs.append(r[1])
    return unspec or (OK, imgs)


def ref(ast, v):
    if isinstance(ast, str):
        return ref_leaf(ast, v)
    c = ast[0]
    k = kind(v)
    if c in _SEQ_IMAGE:
        if k != 'seq':
            return _rej('kind')
        r = _all([ref(ast[1], x) for x in v])
        if r[0] != OK:
            return r
        if c in ('set', 'frozenset'):
            if any(_contains_dc(i) for i in r[1]):
                return _unspec('dataclass_in_set')
        return _try(_SEQ_IMAGE[c], r[1])       # unhashable image in a set -> rejected
    if c in ('tuple', 'tuplelit'):
        if k != 'seq' or len(v) != len(ast) - 1:
            return _rej('kind/len')
        r = _all([ref(a, x) for a, x in zip(ast[1:], v)])
        return (OK, tuple(r[1])) if r[0] == OK else r
    if c == 'struct':
        if k != 'map':
            return _rej('kind')
        decl = dict((kk, a) for kk, a in ast[1:])
        try:
            if set(v.keys()) != set(decl):
                return _rej('keys')
        except TypeError:
            return _rej('keys')
        r = _all([ref(decl[kk], x) for kk, x in v.items()])
        return (OK, dict(zip(list(v.keys()), r[1]))) if r[0] == OK else r
    if c in _MAP_IMAGE:
        if k != 'map':
            return _rej('kind')
        kast = ast[1]
        vast = ast[2] if c != 'counter' else 'int'
        rk = _all([ref(kast, kk) for kk in v.keys()])
        rv = _all([ref(vast, x) for x in v.values()])
        if rk[0] == REJ:
            return rk
        if rv[0] == REJ:
            return rv
        if rk[0] == UNSPEC:
            return rk
        if rv[0] == UNSPEC:
            return rv
        if any(_contains_dc(i) for i in rk[1]):
            return _unspec('dataclass_as_key')
        try:
            d = {}
            for kk, x in zip(rk[1], rv[1]):
                if kk in d:
                    return _unspec('equal_key_images')
                d[kk] = x
            return (OK, _MAP_IMAGE[c](d))
        except TypeError:
            return _rej('unhashable key image')
    if c == 'optional':
        if v is None:
            r = ref(ast[1], v)
            # Optional[T] is Union[T, None]: T first
            return r if r[0] != REJ else (OK, None)
        return ref(ast[1], v)
    if c == 'union':
        for m in ast[1:]:
            r = ref(m, v)
            if r[0] != REJ:
                return r
        return _rej('no member')
    if c == 'annot':
        r = ref(ast[1], v)
        if r[0] != OK:
            return r
        img = r[1]
        if isinstance(img, DcImage):
            return _unspec('condition_on_dataclass')
        ce = grammar.cond_eval(ast[2], img)
        return r if ce is True else _rej('condition')
    raise KeyError(c)


def _contains_dc(img):
    if isinstance(img, DcImage):
        return True
    if isinstance(img, (list, tuple, collections.deque)):
        return any(_contains_dc(x) for x in img)
    if isinstance(img, dict):
        return any(_contains_dc(x) for x in img.values())
    return False


# ------------------------------------------------------------------ dataclasses (A.6)

def ref_dc(leaf, v):
    spec = grammar.DC_SPECS[leaf]
    return ref_spec(spec, v, leaf)


def ref_spec(spec, v, leaf=None):
    opts = spec.get('opts', {})
    in_format = opts.get('in_format', ['struct'])
    if isinstance(in_format, str):
        in_format = [in_format]
    fields = classes_gen.effective_fields(spec)
    init_fields = [f for f in fields if f.get('init', True)]
    k = kind(v)
    bound: t.Dict[str, t.Any] = {}
    if k == 'seq':
        if 'tuple' not in in_format:
            return _rej('layout')
        lo, hi = classes_gen.positional_range(spec)
        if not (lo <= len(v) <= hi):
            return _rej('len')
        pos = [f for f in init_fields if not f['kw_only']]
        for f, x in zip(pos, v):
            bound[f['name']] = x
    elif k == 'map':
        if 'struct' not in in_format:
            return _rej('layout')
        names = [(f, *classes_gen.input_names(f, opts)) for f in init_fields]
        unspec_hit = False
        for key, x in v.items():
            hit = None
            for f, firm, soft in names:
                try:
                    if key in firm:
                        hit = f
                        break
                except TypeError:
                    pass
            if hit is None:
                for f, firm, soft in names:
                    if isinstance(key, str) and key in soft:
                        unspec_hit = True
                if unspec_hit:
                    continue
                if opts.get('allow_extra'):
                    continue
                return _rej('extra')
            if hit['name'] in bound:
                return _rej('duplicate')
            bound[hit['name']] = x
        if unspec_hit:
            return _unspec('python_name_next_to_rename')
    else:
        return _rej('kind')
    for f in init_fields:
        if f['name'] not in bound and not classes_gen.has_default(f):
            return _rej('missing')
    results = {}
    for name, x in bound.items():
        f = next(f for f in init_fields if f['name'] == name)
        results[name] = ref(f['type'], x)
    comb = _all(list(results.values()))
    if comb[0] != OK:
        return comb
    imgs = {name: r[1] for name, r in results.items()}
    for f in init_fields:
        if f['name'] not in imgs:
            d = f['default']
            if d[0] == 'value':
                imgs[f['name']] = values.eval_expr(d[1])
            else:
                fac = d[1]
                imgs[f['name']] = {'list': list, 'dict': dict, 'set': set}[fac]() if isinstance(fac, str) and fac in ('list', 'dict', 'set') \
                    else _default_instance(fac)
    for fname, expr in spec.get('init_false_setter') or ():
        imgs[fname] = values.eval_expr(expr)
    post = spec.get('post') or spec.get('post_model')      # (post_model: the hook is inherited, not in the class body)
    if post and post != 'count' and post[0] == 'raise_if':
        _, fname, expr, _exc = post
        trig = values.eval_expr(expr)
        if type(imgs[fname]) is type(trig) and imgs[fname] == trig:
            return _rej('post_init')
    if post and post != 'count' and post[0] == 'raise_if_set':
        # the hook looks at the record of SUPPLIED fields: it refuses instances where the named (defaulted) field was given
        if post[1] in bound:
            return _rej('post_init')
    return (OK, DcImage(leaf or spec['name'], imgs, set(bound)))


def _default_instance(leaf):
    r = ref_dc(leaf, {})
    assert r[0] == OK
    return r[1]


# ------------------------------------------------------------------ image matching

def match(exp, act, path='$', check_set=True) -> t.Optional[str]:
    if isinstance(exp, DcImage):
        cls = grammar.dc_class(exp.leaf) if exp.leaf in grammar.DC_SPECS else None
        if cls is not None and type(act) is not cls:
            return f"{path}: expected instance of {cls.__name__}, got {type(act).__name__}"
        excluded = set()
        if not check_set and exp.leaf in grammar.DC_SPECS:
            # (check_set=False: the value went through its serialised form - fields the user excluded from output are not part of it)
            excluded = {f['name'] for f in grammar.DC_SPECS[exp.leaf]['fields'] if f.get('exclude')}
        for name, e in exp.fields.items():
            if name in excluded:
                continue
            if not hasattr(act, name):
                return f"{path}.{name}: attribute missing"
            m = match(e, getattr(act, name), f"{path}.{name}", check_set)
            if m:
                return m
        got_set = getattr(act, '__pane_set__', None)
        if check_set and got_set is not None and set(got_set) != set(exp.set_fields):
            return f"{path}: set-field record {sorted(got_set)} != supplied {sorted(exp.set_fields)}"
        return None
    if type(exp) is not type(act):
        # path types: the constructor picks the flavour, the model used the same constructor
        return f"{path}: expected {type(exp).__name__} {exp!r}, got {type(act).__name__} {act!r}"
    if isinstance(exp, (list, tuple, collections.deque)):
        if len(exp) != len(act):
            return f"{path}: length {len(act)} != {len(exp)}"
        for i, (e, a) in enumerate(zip(exp, act)):
            m = match(e, a, f"{path}[{i}]", check_set)
            if m:
                return m
        return None
    if isinstance(exp, dict):
        if isinstance(exp, collections.defaultdict) and act.default_factory is not None:
            return f"{path}: defaultdict has a default_factory"
        if values.ckey_unordered(list(exp.keys())) != values.ckey_unordered(list(act.keys())) and \
                sorted(map(repr, map(values.ckey, exp.keys()))) != sorted(map(repr, map(values.ckey, act.keys()))):
            return f"{path}: keys {list(act.keys())!r} != {list(exp.keys())!r}"
        amap = {values.ckey(kk): x for kk, x in act.items()}
        for kk, e in exp.items():
            m = match(e, amap[values.ckey(kk)], f"{path}[{kk!r}]", check_set)
            if m:
                return m
        return None
    if not values.typed_eq(exp, act):
        return f"{path}: expected {exp!r}, got {act!r}"
    return None


# ------------------------------------------------------------------ members (bounded, bottom-up)

LEAF_MEMBERS: t.Dict[str, t.List[t.Any]] = {
    'int': [0, 7, -1, 10 ** 20], 'float': [1.5, 2, values.INF], 'complex': [complex(1, 2), 3, 0.5],
    'str': ['', 'abc', '12'], 'bytes': [b'ab', bytearray(b'x')], 'bytearray': [b'ab', bytearray(b'x')],
    'bool': [True, False], 'none': [None],
    'decimal': ['1.5', 2, 0.25], 'fraction': ['1/3', 2, 0.5],
    'date': ['2023-09-05'], 'sub_date': ['2023-09-05', '2024-02-29'], 'time': ['11:11:11'], 'datetime': ['2023-09-05T11:11:11', '2023-09-05'],
    'pattern': ['a+b', ''], 'pattern_bytes': [b'a+'],
    'purepath': ['a/b'], 'pureposixpath': ['/a/b'], 'path': ['a/b', '~/d'], 'pathlike': ['a/b', '~/d'],
    'any': [1, 'a', [1, 'x'], {'a': [1]}, None],
    'enum_int': [1, 2], 'enum_str': ['x', 'y'], 'enum_mixed': [1, 's', None], 'enum_strmix': ['red', 'blue'], 'enum_intmix': [1, 2], 'enum_num': [2.5, 1], 'enum_swap': ['RIGHT', 'LEFT'],
    'lit_str': ['a', 'b'], 'lit_mixed': [1, 'a', None], 'lit_long': [0, False, 1, 'b', None], 'lit_v1': ['v1'], 'lit_v2': ['v2'], 'lit_1': [1], 'lit_2': [2],
    'sub_str': ['abc'], 'sub_int': [5], 'sub_float': [2.5, 2],
    'sub_list': [[1, 'a']], 'sub_dict': [{'a': 1}],
    'bare_list': [[], [1, 'a']], 'bare_tuple': [[], [1, 'a'], (1,)], 'bare_dict': [{}, {'a': 1, 2: 'b'}],
    'bare_set': [[1, 'a']], 'bare_frozenset': [[1, 'a']], 'empty_tuple': [[], ()],
}

_MEM_CACHE: t.Dict[str, t.List[t.Any]] = {}


def members(ast, limit=6) -> t.List[t.Any]:
    key = repr(ast)
    r = _MEM_CACHE.get(key)
    if r is None:
        r = values.dedupe(_members(ast))[:limit]
        _MEM_CACHE[key] = r
    return r


def _members(ast) -> t.List[t.Any]:
    if isinstance(ast, str):
        if ast in grammar.DC_SPECS:
            return _dc_members(grammar.DC_SPECS[ast])
        if ast in grammar.EXT_MEMBERS:
            return list(grammar.EXT_MEMBERS[ast])
        return list(LEAF_MEMBERS[ast])
    c = ast[0]
    if c in _SEQ_IMAGE:
        m = members(ast[1])
        out = [[], [m[0]]]
        if len(m) > 1:
            out.append([m[0], m[1]])
            out.append((m[1],))
        if len(m) > 2:
            out.append([m[2], m[0], m[1]])
        if c in ('set', 'frozenset') and not (isinstance(ast[1], str) and ast[1] in grammar.DC_SPECS):
            # (element DATA that is unhashable means an unhashable image - except for dataclasses, whose data is a mapping
            #  but whose instances are hashable when the class is frozen)
            out = [x for x in out if _hashable_data(x)]
        return out
    if c in ('tuple', 'tuplelit'):
        ms = [members(a) for a in ast[1:]]
        out = [[m[0] for m in ms], tuple(m[-1] for m in ms)]
        if all(len(m) > 1 for m in ms):
            out.append([m[1] for m in ms])
        return out
    if c == 'struct':
        ks = [kk for kk, _ in ast[1:]]
        ms = [members(a) for _, a in ast[1:]]
        out = [dict(zip(ks, [m[0] for m in ms])), dict(zip(reversed(ks), reversed([m[-1] for m in ms])))]
        out.append(types.MappingProxyType(dict(zip(ks, [m[0] for m in ms]))))
        return out
    if c in _MAP_IMAGE:
        # data keys must be hashable: spell sequence-shaped key data with tuples all the way down
        km = values.dedupe([_deep_tuple(x) for x in members(ast[1])])
        km = [x for x in km if _hashable_data([x])]
        vm = members(ast[2]) if c != 'counter' else [1, 0, 5]
        out = [{}]
        if km:
            out.append({km[0]: vm[0]})
            if len(km) > 1:
                out.append({km[0]: vm[-1], km[1]: vm[0]})
                out.append(types.MappingProxyType({km[1]: vm[0]}))
        return out
    if c == 'optional':
        return [None] + members(ast[1])
    if c == 'union':
        out = []
        for m in ast[1:]:
            out.extend(members(m)[:3])
        return out
    if c == 'annot':
        good = []
        try:
            for m in members(ast[1]):
                r = ref(ast, m)
                if r[0] == OK:
                    good.append(m)
        except KeyError:       # model-free leaf or user condition: no filtering possible
            return members(ast[1])
        return good or members(ast[1])[:1]
    raise KeyError(c)


def _deep_tuple(x):
    if type(x) in (list, tuple):
        return tuple(_deep_tuple(e) for e in x)
    return x


def _hashable_data(x):
    try:
        for e in x:
            hash(e)
        return True
    except TypeError:
        return False


def _dc_members(spec) -> t.List[t.Any]:
    opts = spec.get('opts', {})
    fields = [f for f in classes_gen.effective_fields(spec) if f.get('init', True)]
    in_format = opts.get('in_format', ['struct'])
    first = {f['name']: members(f['type'])[0] for f in fields}
    last = {f['name']: members(f['type'])[-1] for f in fields}
    nm = {f['name']: classes_gen.input_names(f, opts)[0] for f in fields}
    out: t.List[t.Any] = []
    if 'struct' in in_format:
        out.append({nm[f['name']][0]: first[f['name']] for f in fields})
        out.append({nm[f['name']][-1]: last[f['name']] for f in reversed(fields)})
        out.append({nm[f['name']][0]: first[f['name']] for f in fields if not classes_gen.has_default(f)})
    if 'tuple' in in_format:
        pos = [f for f in fields if not f['kw_only']]
        lo, hi = classes_gen.positional_range(spec)
        out.append([first[f['name']] for f in pos])
        out.append(tuple(last[f['name']] for f in pos[:lo]))
    return out


def dc_name_analysis(spec, v):
    """For mapping data: (bound {field: key}, missing [field], extra [key], dups [key], unspec bool) from the reference field table."""
    opts = spec.get('opts', {})
    fields = [f for f in classes_gen.effective_fields(spec) if f.get('init', True)]
    names = [(f, *classes_gen.input_names(f, opts)) for f in fields]
    bound, extra, dups = {}, [], []
    unspec = False
    for key in v:
        hit = None
        for f, firm, soft in names:
            try:
                if key in firm:
                    hit = f
                    break
            except TypeError:
                pass
        if hit is None:
            if any(isinstance(key, str) and key in soft for f, firm, soft in names):
                unspec = True
            elif not opts.get('allow_extra'):
                extra.append(key)
            continue
        if hit['name'] in bound:
            dups.append(key)
            continue
        bound[hit['name']] = key
    missing = [f['name'] for f in fields if f['name'] not in bound and not classes_gen.has_default(f)]
    return bound, missing, extra, dups, unspec


def dc_near(spec) -> t.List[t.Any]:
    """Non-member data specific to dataclasses: duplicate names (also with a failing first occurrence), unknown +
    missing together, positional data that is too long / too short."""
    opts = spec.get('opts', {})
    fields = [f for f in classes_gen.effective_fields(spec) if f.get('init', True)]
    out: t.List[t.Any] = []
    full = {}
    for f in fields:
        full[classes_gen.input_names(f, opts)[0][0]] = members(f['type'])[0]
    for f in fields:
        firm, soft = classes_gen.input_names(f, opts)
        if len(firm) > 1:
            good = members(f['type'])[0]
            d = dict(full)
            d[firm[1]] = good                       # the same field twice
            out.append(d)
            d2 = {firm[0]: [[['bad']]], firm[1]: good, **{k: x for k, x in full.items() if k not in firm}}
            out.append(d2)                          # first occurrence does not even convert
            out.append({firm[1]: good, firm[0]: {'bad': None}, **{k: x for k, x in full.items() if k not in firm}})
    for f in fields:
        # the OUTPUT name of a field is not one of its input names unless it is also listed as such
        firm, soft = classes_gen.input_names(f, opts)
        on = classes_gen.out_name(f, opts)
        if on not in firm and on not in soft:
            out.append({**{k: x for k, x in full.items() if k not in firm}, on: members(f['type'])[0]})
    for f in fields:
        # a field GIVEN the value of its own default (the very object where it is a singleton), and a value == to it of another
        # kind - alone and next to another field that fails: "as if it had been left out" is not what giving it means
        df = f.get('default')
        if df and df[0] == 'value':
            try:
                dv = values.eval_expr(df[1])
            except Exception:  # noqa: a default that is not a plain literal
                continue
            key = classes_gen.input_names(f, opts)[0][0]
            for cand in [dv] + ([values._twin(dv)] if values._twin(dv) is not None else []):
                if not values.is_interchange(cand):
                    continue            # (a default written as a typed value - an enum member, a Fraction - is not data)
                out.append({**full, key: cand})
                for g in fields:
                    if g is not f:
                        out.append({**full, key: cand, classes_gen.input_names(g, opts)[0][0]: [['bad']]})
    req = [f for f in fields if not classes_gen.has_default(f)]
    if req:
        d = {k: x for k, x in full.items() if k not in classes_gen.input_names(req[0], opts)[0]}
        d['unknown_key'] = 1
        d['another'] = 2
        out.append(d)                               # missing + two extras
    out.append({**full, 'zz': 0, 'yy': 0, 'xx': 0})
    for f in fields:
        if isinstance(f['type'], str) and f['type'] in grammar.DC_SPECS:
            inner = grammar.DC_SPECS[f['type']]
            key = classes_gen.input_names(f, opts)[0][0]
            for bad in _multi_fault(inner):
                out.append({**{k: x for k, x in full.items() if k != key}, key: bad})
    if 'tuple' in opts.get('in_format', ['struct']):
        lo, hi = classes_gen.positional_range(spec)
        pos = [f for f in fields if not f['kw_only']]
        vals = [members(f['type'])[0] for f in pos]
        out.append(vals + [None])
        out.append(vals + [1, 2])
        if lo > 0:
            out.append(vals[:lo - 1])
    return out


def _multi_fault(spec) -> t.List[t.Any]:
    """Mapping data for `spec` with several faults at once: a failing (possibly nested) child next to a missing required
    field and / or an unknown key - so that a product node with one failing child also carries missing / extra."""
    opts = spec.get('opts', {})
    fields = [f for f in classes_gen.effective_fields(spec) if f.get('init', True)]
    full = {classes_gen.input_names(f, opts)[0][0]: members(f['type'])[0] for f in fields}
    keys = list(full)
    out = []
    first = fields[0]
    if isinstance(first['type'], str) and first['type'] in grammar.DC_SPECS:
        inner = grammar.DC_SPECS[first['type']]
        ifields = [f for f in classes_gen.effective_fields(inner) if f.get('init', True)]
        ifull = {classes_gen.input_names(f, inner.get('opts', {}))[0][0]: members(f['type'])[0] for f in ifields}
        ikeys = list(ifull)
        child_bad = dict(ifull)
        child_bad[ikeys[0]] = [['bad']]
    else:
        child_bad = [['bad']]
    req = [classes_gen.input_names(f, opts)[0][0] for f in fields[1:] if not classes_gen.has_default(f)]
    d = dict(full)
    d[keys[0]] = child_bad
    out.append(dict(d, bogus=1))
    if req:
        d2 = {k: x for k, x in d.items() if k != req[0]}
        out.append(d2)
        out.append(dict(d2, bogus=1))
    return out


# ------------------------------------------------------------------ serialisation model (A.7)

def serial_scalar_ok(x) -> bool:
    return values.is_interchange(x)


class NoModel(Exception):
    """The serialisation of this node is not fixed by the model (unions, Any, ...)."""


def _seq_like(d):
    return type(d) in (list, tuple)


def check_serial(ast, x, d, path='$') -> t.Optional[str]:
    """Compare into_data output `d` of typed value `x` with the documented serial form (A.7). None = fine."""
    if isinstance(ast, str):
        if ast in grammar.DC_SPECS:
            return _check_serial_dc(grammar.DC_SPECS[ast], x, d, path)
        if ast in grammar.TAGGED:
            layout, variants = grammar.TAGGED[ast]
            hit = next(((tg, leaf) for tg, leaf in variants.items() if type(x) is grammar.dc_class(leaf)), None)
            if hit is None:
                return f"{path}: {x!r} is not an instance of a variant"
            tg, leaf = hit
            if layout == 'internal':
                body = d
            elif layout == 'external':
                if type(d) is not dict or list(d) != [tg]:
                    return f"{path}: expected the external layout {{{tg!r}: ...}}, got {d!r}"
                body = d[tg]
            else:
                if type(d) is not dict or set(d) != {'t', 'c'} or not values.typed_eq(d['t'], tg):
                    return f"{path}: expected the adjacent layout {{'t': {tg!r}, 'c': ...}}, got {d!r}"
                body = d['c']
            return _check_serial_dc(grammar.DC_SPECS[leaf], x, body, path)
        if ast in ('int', 'float', 'complex', 'str', 'bytes', 'bool', 'none', 'lit_str', 'lit_mixed', 'lit_long', 'lit_v1', 'lit_v2', 'lit_1', 'lit_2'):
            want = x
        elif ast == 'bytearray':
            return None if type(d) in (bytes, bytearray) and bytes(d) == bytes(x) else f"{path}: expected the bytes {bytes(x)!r}, got {d!r}"
        elif ast in ('sub_str', 'sub_int', 'sub_float'):
            want = {'sub_str': str, 'sub_int': int, 'sub_float': float}[ast](x)
        elif ast in ('decimal', 'fraction', 'purepath', 'pureposixpath', 'path', 'pathlike'):
            want = str(x)
        elif ast in ('date', 'time', 'datetime', 'sub_date'):
            want = x.isoformat()
        elif ast in ('pattern', 'pattern_bytes'):
            want = x.pattern
        elif ast in ('enum_int', 'enum_str', 'enum_mixed', 'enum_strmix', 'enum_intmix', 'enum_num', 'enum_swap'):
            want = x.value
            if ast == 'enum_intmix':
                want = int(want)
        else:
            return None          # any / bare containers / container subclasses: serialised by runtime type, not modelled
        if not values.typed_eq(want, d):
            return f"{path}: expected {want!r} ({type(want).__name__}), got {d!r} ({type(d).__name__})"
        return None
    c = ast[0]
    if c in _SEQ_IMAGE:
        if not _seq_like(d):
            return f"{path}: expected a sequence, got {type(d).__name__}"
        xs = list(x)
        if len(xs) != len(d):
            return f"{path}: {len(d)} elements for {len(xs)} members"
        if c in ('set', 'frozenset'):
            # order is free: match greedily by model check
            rest = list(d)
            for e in xs:
                for i, g in enumerate(rest):
                    if check_serial(ast[1], e, g, path) is None:
                        del rest[i]
                        break
                else:
                    return f"{path}: no serialised element corresponds to member {e!r} (got {d!r})"
            return None
        for i, (e, g) in enumerate(zip(xs, d)):
            r = check_serial(ast[1], e, g, f"{path}[{i}]")
            if r:
                return r
        return None
    if c in ('tuple', 'tuplelit'):
        if not _seq_like(d) or len(d) != len(ast) - 1:
            return f"{path}: expected a sequence of length {len(ast) - 1}, got {d!r}"
        for i, (a, e, g) in enumerate(zip(ast[1:], x, d)):
            r = check_serial(a, e, g, f"{path}[{i}]")
            if r:
                return r
        return None
    if c == 'struct':
        if type(d) is not dict or set(d) != set(x):
            return f"{path}: expected a dict with keys {sorted(x)}, got {d!r}"
        decl = dict((kk, a) for kk, a in ast[1:])
        for kk, e in x.items():
            r = check_serial(decl[kk], e, d[kk], f"{path}[{kk!r}]")
            if r:
                return r
        return None
    if c in _MAP_IMAGE:
        if type(d) is not dict or len(d) != len(x):
            return f"{path}: expected a dict with {len(x)} entries, got {d!r}"
        vast = ast[2] if c != 'counter' else 'int'
        items = list(d.items())
        for (kk, e), (dk, dv) in zip(x.items(), items):
            r = check_serial(ast[1], kk, dk, f"{path}<key {kk!r}>") or check_serial(vast, e, dv, f"{path}[{kk!r}]")
            if r:
                return r
        return None
    if c == 'annot':
        return check_serial(ast[1], x, d, path)
    if c in ('optional', 'union'):
        if c == 'optional' and x is None:
            return None if d is None else f"{path}: None serialised as {d!r}"
        return None              # "as some accepting member": decided by the round trip, not by the model
    return None


def _check_serial_dc(spec, x, d, path):
    opts = spec.get('opts', {})
    fields = [f for f in classes_gen.effective_fields(spec) if not f.get('exclude')]
    if opts.get('out_format', 'struct') == 'tuple':
        if type(d) not in (tuple, list) or len(d) != len(fields):
            return f"{path}: expected a sequence of {len(fields)} fields, got {d!r}"
        for f, g in zip(fields, d):
            r = check_serial(f['type'], getattr(x, f['name']), g, f"{path}.{f['name']}")
            if r:
                return r
        return None
    names = [classes_gen.out_name(f, opts) for f in fields]
    if type(d) is not dict or list(d) != names:
        return f"{path}: expected a dict with keys {names}, got {d!r}"
    for f, n in zip(fields, names):
        r = check_serial(f['type'], getattr(x, f['name']), d[n], f"{path}.{f['name']}")
        if r:
            return r
    return None
