"""
E1 - bounded-exhaustive product exploration: every expression of the tier's grammar x every spelling x every value of
the expression's value universe (members + all single deviations of members + the fixed POOL; thorough: the
deviations are applied to more members and the grammar is deeper).  A check supplies judge(ctx, cell).
"""
from __future__ import annotations

import typing as t
import warnings

from mc import core, grammar, values, refmodel

NSHARDS = 64


def plan(tier, seed):
    return [{'i': i, 'n': NSHARDS} for i in range(NSHARDS)]


def leaves_of(ast, acc=None):
    acc = set() if acc is None else acc
    if isinstance(ast, str):
        acc.add(ast)
    elif ast[0] == 'struct':
        for _, v in ast[1:]:
            leaves_of(v, acc)
    elif ast[0] == 'annot':
        leaves_of(ast[1], acc)
        acc.add('cond:' + ast[2])
    else:
        for c in ast[1:]:
            leaves_of(c, acc)
    return acc


def ctors_of(ast, acc=None):
    acc = [] if acc is None else acc
    if not isinstance(ast, str):
        acc.append(ast[0])
        for c in (ast[1:] if ast[0] not in ('struct',) else [v for _, v in ast[1:]]):
            if ast[0] == 'annot' and isinstance(c, str) and c in grammar.CONDS and c is ast[2]:
                continue
            if isinstance(c, (list, str)):
                ctors_of(c, acc) if not isinstance(c, str) else None
    return acc


def root_of(ast):
    return ast if isinstance(ast, str) else ast[0]


_VAL_CACHE: t.Dict[str, t.List[t.Any]] = {}


def values_for(ast, tier) -> t.List[t.Any]:
    key = tier + repr(ast)
    r = _VAL_CACHE.get(key)
    if r is not None:
        return r
    mem = refmodel.members(ast)
    out = list(mem)
    nmut = 3 if tier == 'quick' else 5
    cap = 90 if tier == 'quick' else 220
    near = []
    for m in mem[:nmut]:
        near.extend(values.mutate1(m))
    near = values.dedupe(near)
    if len(near) > cap:
        # keep a deterministic, evenly spread subset (never random)
        step = len(near) / cap
        near = [near[int(i * step)] for i in range(cap)]
    out.extend(near)
    # large members: 70 elements for every type, 300 for the small types (thorough: 1100 too)
    for m in mem[:2]:
        out.extend(values.inflate(m, 70))
    if size(ast) <= 2 and mem:
        for n in ((300,) if tier == 'quick' else (300, 1100)):
            out.extend(list(values.inflate(mem[0], n))[:2])
    if isinstance(ast, str) and ast in grammar.DC_SPECS:
        out.extend(refmodel.dc_near(grammar.DC_SPECS[ast]))
    out.extend(values.POOL)
    out.append(grammar.SubStr('xy'))
    out = values.dedupe(out)
    _VAL_CACHE[key] = out
    if len(_VAL_CACHE) > 4000:
        _VAL_CACHE.clear()
    return out


def spellings_for(ast) -> t.List[t.Tuple[int, int]]:
    n = grammar.n_spellings(ast)
    sp = [(i, 0) for i in range(n)]
    if not isinstance(ast, str):
        sp.append((0, 1))
        if leaves_of(ast) & {'int', 'any'} and size(ast) <= 3:
            sp.append((0, 2))      # third child spelling: int as a bound TypeVar, Any as a free one (and the containers' third names)
    return sp


class Ctx:
    __slots__ = ('tier', 'res', 'pane', 'extra')

    def __init__(self, tier, res, pane):
        self.tier = tier
        self.res = res
        self.pane = pane
        self.extra = {}


def cell_desc(ast, sp, vi, v):
    return {'ast': ast, 'sp': list(sp), 'vi': vi, 'v': values.expr(v)}


def _canon(ast):
    """The expression with the members of every union sorted: Union[A, B] and Union[B, A] get the same key."""
    if isinstance(ast, str):
        return ast
    kids = [_canon(c) if isinstance(c, (list, str)) else c for c in ast[1:]]
    if ast[0] == 'union':
        kids = sorted(kids, key=repr)
    return [ast[0]] + kids


def shard_of(ast, n):
    """Shard of an expression.  Expressions that differ only in the ORDER of union members go to the same shard, i.e. the same
    interpreter, one after the other: types like list[Union[int, float]] and list[Union[float, int]] compare (and hash) equal,
    so whatever is memoised per type must be shown not to confuse them - which needs both in one process."""
    import zlib
    return zlib.crc32(repr(_canon(ast)).encode()) % n


def run_shard(shard, tier, judge, per_type=None, value_fn=values_for, expr_fn=grammar.expressions):
    pane = core.import_pane()
    warnings.simplefilter('ignore')
    res = core.new_result()
    ctx = Ctx(tier, res, pane)
    exprs = expr_fn(tier)
    for idx, ast in enumerate(exprs):
        if shard_of(ast, shard['n']) != shard['i']:
            continue
        vals = value_fn(ast, tier)
        for sp in spellings_for(ast):
            try:
                T = grammar.build(ast, sp[0], sp[1])
            except Exception as e:  # noqa
                core.add_violation(res, {'kind': 'type_build', 'root': root_of(ast), 'exc': type(e).__name__},
                                   f"building the type object for {grammar.render(ast)} spelling {sp} raised {e!r}",
                                   cell_desc(ast, sp, -1, None))
                continue
            if per_type is not None:
                per_type(ctx, ast, sp, T)
            for vi, v in enumerate(vals):
                try:
                    judge(ctx, ast, sp, T, vi, v)
                except Exception as e:  # noqa: the oracle itself tripped over something pane returned
                    import traceback
                    tb = traceback.extract_tb(e.__traceback__)[-1]
                    core.add_violation(res, {'kind': 'oracle_exception', 'root': root_of(ast), 'exc': type(e).__name__,
                                             'where': f"{tb.name}:{tb.lineno}"},
                                       f"judging {grammar.render(ast)} on {values.expr(v)} raised {type(e).__name__}: "
                                       f"{core.sstr(e)} at {tb.filename}:{tb.lineno}", cell_desc(ast, sp, vi, v), size(ast) * 10)
            res['states'] += len(vals)
            # second look at the first values AFTER everything else went through the same (memoised) converter: whatever a
            # converter remembers of earlier values must not show (a witness found only here is replayed by shard)
            for vi, v in enumerate(vals[:6]):
                try:
                    judge(ctx, ast, sp, T, vi, v)
                except Exception:  # noqa: already reported by the first pass
                    pass
        if len(res['samples']) < 2 and not isinstance(ast, str):
            res['samples'].append({'type': grammar.render(ast), 'spelling': repr(grammar.build(ast, 0, 0))[:120],
                                   'n_values': len(vals), 'first_values': [values.expr(v)[:60] for v in vals[:4]]})
    return res


def replay(cell, judge, per_type=None, value_fn=values_for):
    pane = core.import_pane()
    warnings.simplefilter('ignore')
    res = core.new_result()
    ast = cell['ast']
    sp = tuple(cell['sp'])
    out = []
    for tier in ('quick', 'thorough'):
        ctx = Ctx(tier, res, pane)
        T = grammar.build(ast, sp[0], sp[1])
        if per_type is not None:
            per_type(ctx, ast, sp, T)
        vals = value_fn(ast, tier)
        vi = cell['vi']
        if 0 <= vi < len(vals) and values.expr(vals[vi]) == cell['v']:
            _safe_judge(judge, ctx, ast, sp, T, vi, vals[vi])
            break
        if vi < 0:
            break
    else:
        # fall back to the recorded value expression
        ctx = Ctx('quick', res, pane)
        T = grammar.build(ast, sp[0], sp[1])
        _safe_judge(judge, ctx, ast, sp, T, cell['vi'], values.eval_expr(cell['v']))
    for lst in res['violations'].values():
        out.extend(lst)
    return out


def _safe_judge(judge, ctx, ast, sp, T, vi, v):
    try:
        judge(ctx, ast, sp, T, vi, v)
    except Exception as e:  # noqa
        import traceback
        tb = traceback.extract_tb(e.__traceback__)[-1]
        core.add_violation(ctx.res, {'kind': 'oracle_exception', 'root': root_of(ast), 'exc': type(e).__name__,
                                     'where': f"{tb.name}:{tb.lineno}"},
                           f"judging {grammar.render(ast)} on {values.expr(v)} raised {type(e).__name__}: {core.sstr(e)}",
                           cell_desc(ast, sp, vi, v), size(ast) * 10)


def size(ast) -> int:
    if isinstance(ast, str):
        return 1
    if ast[0] == 'struct':
        return 1 + sum(size(v) for _, v in ast[1:])
    if ast[0] == 'annot':
        return 1 + size(ast[1])
    return 1 + sum(size(c) for c in ast[1:])


def vsize(v) -> int:
    if isinstance(v, (list, tuple)):
        return 1 + sum(vsize(x) for x in v)
    if isinstance(v, values.MAPS):
        return 1 + sum(vsize(x) for x in v.values())
    return 1
