"""Helpers for error trees: canonical keys, structural equality (nan-safe), walks."""
from __future__ import annotations

import typing as t

from mc import values


def cause_key(c):
    if c is None:
        return None
    try:
        return (getattr(c.exc_type, '__name__', str(c.exc_type)), ''.join(c.format_exception_only()).strip())
    except Exception as e:  # noqa
        return ('<cause unreadable>', type(e).__name__)


def tree_key(node):
    """Canonical, hashable description of an error tree (types, expected strings, typed actual values, keys)."""
    n = type(node).__name__
    if n == 'ProductErrorNode':
        return (n, node.expected,
                tuple(sorted(((type(k).__name__, str(k)), tree_key(c)) for k, c in node.children.items())),
                values.ckey_unordered(node.actual),
                tuple(sorted(map(_name_key, node.missing))), tuple(sorted(map(_name_key, node.extra))))
    if n == 'SumErrorNode':
        return (n, tuple(tree_key(c) for c in node.children))
    if n == 'WrongTypeError':
        return (n, node.expected, values.ckey_unordered(node.actual), cause_key(node.cause), node.info)
    if n == 'WrongLenError':
        return (n, node.expected, tuple(node.expected_len), values.ckey_unordered(node.actual), node.actual_len)
    if n == 'ConditionFailedError':
        return (n, node.expected, values.ckey_unordered(node.actual), node.condition, cause_key(node.cause))
    if n == 'DuplicateKeyError':
        return (n, _name_key(node.key), tuple(node.aliases))
    return ('?', n, repr(node))


def _name_key(x):
    return (type(x).__name__, str(x) if isinstance(x, str) or not isinstance(x, (list, tuple)) else '/'.join(map(str, x)))


def node_eq(a, b) -> bool:
    return tree_key(a) == tree_key(b)


def leaves(node, path=()) -> t.Iterator[t.Tuple[t.Tuple[t.Any, ...], t.Any]]:
    """(path, leaf) pairs; a path component is ('k', key) for product children and ('|', index) for sum children."""
    n = type(node).__name__
    if n == 'ProductErrorNode':
        for k, c in node.children.items():
            yield from leaves(c, path + (('k', k),))
        if not node.children:
            yield (path, node)
    elif n == 'SumErrorNode':
        for i, c in enumerate(node.children):
            yield from leaves(c, path + (('|', i),))
    else:
        yield (path, node)


def shape(node) -> str:
    """Coarse shape string used to count distinct tree shapes."""
    n = type(node).__name__
    if n == 'ProductErrorNode':
        return 'P(' + ','.join(shape(c) for c in node.children.values()) + (';m' if node.missing else '') + (';x' if node.extra else '') + ')'
    if n == 'SumErrorNode':
        return 'S(' + ','.join(shape(c) for c in node.children) + ')'
    if n == 'WrongTypeError':
        return 'W' + ('c' if node.cause is not None else '') + ('i' if node.info else '')
    if n == 'ConditionFailedError':
        return 'C' + ('c' if node.cause is not None else '')
    return n[0]
