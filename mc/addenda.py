"""Text describing what each check explores beyond its base rule (one entry per property; appended to the manifest's level text
and to the rule recorded in the evidence, so the two cannot drift apart)."""

ADDENDA = {
    'C01': "Expressions that differ only in the order of union members run in ONE interpreter, one after the other (they compare and hash equal, so a memo must be shown not to confuse them), incl. overlapping unions inside eight kinds of container; after every mutable container of a result has been modified, the same data must convert to the same image again. The tagged unions have a reference model too (variants are fixture dataclasses); int / Any are also spelled as bound / free TypeVars; a non-member that raises anything but ConvertError is reported; every type's first values are judged a second time after the whole pass.",
    'C02': "Now 19 contexts (Annotated with a condition that always holds, a Counter count, a field behind an init=False field, a defaulted field, a class carrying custom={int: ...}) and every single context also with custom={int: stock converter} passed to the call. Targets include the numpy scalar types; a constructor argument of another kind that equals the field's default is a separate call mode; floats / complex equal to int literals are in the data.",
    'C03': "A pass that lets an exception through which the other pass handles counts as disagreement; data include over-long regex repetitions and a non-frozen class whose hook assigns a field; tagged unions also as members of untagged unions.",
    'C04': "Adversarial atoms include ints beyond the interpreter's str-digits limit as values and as KEYS, and every mapping is also presented as a bare collections.abc.Mapping (no copy / pop). Texts that hold no document or an empty one go through from_yaml / from_yaml_all / from_json for every small type.",
    'C05': "Mix-in enums, nested set-like keys, Optional fields with non-None defaults and field renames under a class style are part of the fixtures. A dataclass with a field that is neither written nor compared is explored as set member and mapping key, with Python's own == after the round trip; the precondition (output form enabled on input) is applied to every dataclass in the type.",
    'C06': "ValueOrList values are also built natively (from_val / from_list), alone and inside containers; order twins of unions share an interpreter. A dataclass whose fields carry converter= is built from already-typed arguments; the ValueOrList ambiguity finding is matched by a predicate computed without the converter under test.",
    'C07': "Tagged unions (three layouts, alone and inside untagged unions) must report the selected variant's own tree; order twins of unions share an interpreter. A stream of YAML documents that fails must give the tree of converting the list of documents.",
    'C08': "For a union every path component that each member ALONE reports must be named (alternatives with equal descriptions included); values whose rendering would fail (huge ints) are part of the data. ... and the same text; unprintable mapping KEYS (unexpected fields) are part of the data.",
    'C09': "Cls.from_dict_unchecked is an entry point; snapshots are order-sensitive (a key taken out and put back is a modification). into_data(container, T) on inserting mappings is an entry point.",
    'C10': "Every probe runs from_data and into_data; handler forms include ONE mapping object whose entries change between calls; pristine outcomes are computed per probe in a forked child; all ordered sequences of <= 3 (thorough 4) probes run through one memoised converter for six long-lived types; when a schedule bound is capped the bound below is completed and reported. Handler-form sequences (all sequences of <= 3 of the six handler forms) for four long-lived dataclasses incl. one with a class rename style and one whose hook appends to a default container; reader-call histories (from_yaml / from_yaml_all / from_json in all orders of three).",
    'C11': "17 forms (tuple / struct literals, builtin list, class handlers, type variables bound to or duplicated by a member, one generic class subscripted with the whole union), both member orders in one interpreter, sequences of equal-but-differently-typed values (1, 1.0, True; 0.0, -0.0), and ten unions with non-adjacent Literal members. convert(data, U) must agree with the left-most member; two dataclasses sharing a name in one union.",
    'C12': "Also: the same variants under a second tag attribute, inside a tuple-output dataclass, content key before tag key, as a later member of four untagged unions, Tagged followed by a condition, and write_json / write_yaml / from_json / from_yaml with ty=. Variants whose tag field is init=False (internal layout).",
    'C13': "63 atoms incl. eight raising exception classes and three DISTINCT predicates that share one name (bundled, combined, and met one after the other in one interpreter); three more placements put the annotated type under call-level / class-level custom= handlers for its inner type. 10**400 in the int grid (finite, beyond float range).",
    'C14': "22 field kinds (excluded fields, mapping arguments with keys of different runtime types, a default written in unconverted form and passed back as the same object) and 4 hooks (none, counting, raising, assigning); unvalidated instances as arguments. A bool argument for an int field and an Ellipsis default are part of the kinds.",
    'C15': "Every configuration also with a hidden init=False field and as a subscripted generic class; mapping data also as MappingProxyType and bare Mapping; output also through Union[look-alike class, cls]. Also an excluded-field variant of every configuration and deque data for the positional layout.",
    'C16': "Class bodies also with an explicit __hash__ = None (with and without __eq__); a real subclass of a subscripted generic is unequal to the generic; derived classes; an excluded field in the copy / replace histories. Ordering across generic parameterisations must agree with equality.",
    'C17': "16 field-type shapes (a generic dataclass directly, below List / Optional / Dict / Annotated, partially bound, through a re-parameterised alias), a field converter on a type-variable annotation, mixins, diamonds, plain mixin before the pane base, inherited init=False field. Unions that mention the type variable next to an overlapping member, both orders, with a value check.",
    'C18': "5 targets (incl. str) x 16 shapes (incl. keys of undeclared key type, converter on a type-variable field of a subscripted generic) ; histories: one mapping object edited between calls, three levels sharing a handler object, one handler object as class handler then as call handler and back. Shape tagged_variant; every file reader and writer with custom=.",
    'C19': "The pool includes tagged unions in three layouts and declared str-subclass types (alone, in a list, as a key, as a field). from_yaml_all for Union[int, float] and Union[float, int] in one interpreter; reader-call histories.",
    'C20': "The class path covers rename=, in_rename=, dict(rename=), dict(set_only=True, rename=) and field(out_name=) under a class style; history-dependent witnesses (a memo keyed too coarsely) are confirmed by re-running the originating shard. dict(rename=<every other style>) on classes with their own style; malformed field names through the class path.",
}

ADDENDA6 = {
    'C01': "Fixtures include a generic dataclass nested in a subscripted generic dataclass, tagged unions inside a tuple-layout class, list-of-dataclass / mapping-of-list fields and a class that inherits its hook.",
    'C02': "Call modes plain / custom / yaml / json / construct; data include one-byte bytes and bytearray values; numpy scalar targets.",
    'C10': "Thread scenarios include two threads converting ONE shared value object; a separate shard runs reader-call histories and multi-document unions in both member orders.",
    'C11': "Serialisation is judged without data: the output for a typed value must be the serialisation by a member that reads it back.",
    'C12': "A variant and its subclass that inherit one tag value must be refused when the type is built.",
    'C14': "A derived class that inherits a raising / assigning __post_init__ is explored like its base.",
    'C17': "Form 'regeneric': a generic class whose field is another generic class re-parameterised with the outer variable.",
}


ADDENDA7 = {
    'C01': "Every type also meets its first members with about 70 elements or keys (small types 300; thorough 1 100), each with a wrong element at the far end and with an equal-valued element of another kind (1 / 1.0 / True) first and last; leaves include a Literal with ten alternatives (0 and False both), an enum whose values are spelled like the other member's name, a date subclass, a one-sided range over strings, a class whose hook reads the record of supplied fields and one whose own default is ill-typed.",
    'C03': "The same large members, the ten-alternative Literal and the hook that reads the record of supplied fields.",
    'C04': "Unknown keys include strings no naming style can split ('_q', 'q--q'); large members; the ten-alternative Literal on unhashable data.",
    'C05': "Unions of two members that are the same container class with different element types (values of both meet one converter in turn).",
    'C06': "Typed paths beginning with '~'; 70-element typed members.",
    'C07': "Data in which a field is GIVEN its own default (or an equal value of another kind) next to another failing field; 70-element sequences with an equal-valued twin.",
    'C08': "A value whose str() itself renders a pane error; plain strings must be shown as they were given.",
    'C09': "A non-dict mapping whose indexing inserts; 70-key plain dicts through the tagged layouts.",
    'C10': "A shard that subscripts five related generic dataclasses with equal arguments in every order of 2-3 (each order in a forked child); a shared handler mapping whose keys stay and whose converter changes.",
    'C11': "70-element sequences of all accepted values in two orders, judged element by element; a dataclass and its subclass as members; generic classes whose variable sits below a container inside a union (known finding: typing's memo).",
    'C12': "A variant that reads positional data only; a subclass variant with its own tag; numeric tags of another kind are undeclared.",
    'C13': "Ranges over strings and dates and with bounds beyond 2**53; inner types SubInt, an IntEnum with a member of 10**400, date, Fraction, Decimal.",
    'C14': "An init=False field of another type declared before the positional fields.",
    'C15': "One mapping object converted, edited in place by its owner and converted again; an alias that Unicode normalisation would change.",
    'C16': "Histories over a frozen instance that holds a non-frozen hashable one under a rejecting hook; a two-parameter generic bound in one and in two steps.",
    'C17': "Generic dataclasses as arguments of generic dataclasses; inherited frozen after rejected constructions; one field() object in three class bodies in every order.",
    'C18': "Handlers must reach init=False fields on output.",
    'C19': "Numeric-looking strings under the full YAML cube; lone surrogates through every JSON sink.",
    'C20': "A shard that first renames out-of-domain but accepted names (one-letter words and their images), then checks the laws.",
}


def text(pid):
    return (ADDENDA.get(pid, '') + ' ' + ADDENDA6.get(pid, '') + ' ' + ADDENDA7.get(pid, '')).strip()
