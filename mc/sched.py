"""
E3 - deviation-bounded cooperative thread scheduler for real Python threads.

One baton: exactly one harness thread runs at any time; a thread runs until it reaches a *scheduling point* (a 'line'
or 'call' trace event inside one of the watched code objects, or an acquire of a CoopLock), where the schedule decides
who continues.  A schedule is the list of choices taken at the points; choice 0 always means "the canonical first
enabled thread" = the current thread if it is still enabled, else the lowest thread id.  Exploration is iterative
context bounding: explore(prefix) runs prefix + all-zero suffix, then branches at every later point on every other
enabled thread whose selection keeps the number of preemptions (switching away from a still-enabled thread) within
the bound.
"""
from __future__ import annotations

import sys
import threading
import typing as t


class Deadlock(Exception):
    pass


class ScheduleDivergence(Exception):
    pass


class CoopLock:
    """Re-entrant lock whose acquire is a scheduling point and whose blocking is visible to the scheduler."""

    def __init__(self, run: 'Run'):
        self.run = run
        self.owner: t.Optional[int] = None
        self.count = 0

    def acquire(self, blocking: bool = True, timeout: float = -1) -> bool:
        run = self.run
        tid = run.current_tid()
        if tid is None:                    # used outside a harness thread (setup / teardown)
            self.owner, self.count = -1, self.count + 1
            return True
        run.point(tid, 'lock')
        while self.owner is not None and self.owner != tid:
            run.block(tid, self)
        self.owner = tid
        self.count += 1
        return True

    def release(self) -> None:
        self.count -= 1
        if self.count == 0:
            self.owner = None
            self.run.unblock(self)

    __enter__ = acquire

    def __exit__(self, *a: t.Any) -> None:
        self.release()


class Run:
    """One execution of a set of thread bodies under a given choice prefix."""

    def __init__(self, bodies: t.Sequence[t.Callable[[], t.Any]], watched: t.Set[t.Any], prefix: t.Sequence[int],
                 expect: t.Optional[t.Sequence[t.Tuple[int, ...]]] = None):
        self.expect = list(expect) if expect is not None else None
        self.bodies = list(bodies)
        self.watched = watched
        self.prefix = list(prefix)
        self.n = len(bodies)
        self.sems = [threading.Semaphore(0) for _ in range(self.n)]
        self.main_sem = threading.Semaphore(0)
        self.finished = [False] * self.n
        self.blocked: t.Dict[int, CoopLock] = {}
        self.results: t.List[t.Any] = [None] * self.n
        self.errors: t.List[t.Optional[BaseException]] = [None] * self.n
        self.points: t.List[t.Tuple[t.Tuple[int, ...], int, bool]] = []   # (enabled in canonical order, chosen index, current still enabled)
        self.choices: t.List[int] = []
        self.idents: t.Dict[int, int] = {}
        self.running: t.Optional[int] = None
        self.deadlock = False
        self.failure: t.Optional[BaseException] = None
        self.trace_log: t.List[t.Tuple[int, str]] = []

    # ---- called from harness threads

    def current_tid(self) -> t.Optional[int]:
        return self.idents.get(threading.get_ident())

    def _enabled(self, current: t.Optional[int]) -> t.List[int]:
        en = [i for i in range(self.n) if not self.finished[i] and i not in self.blocked]
        if current is not None and current in en:
            en.remove(current)
            en.insert(0, current)
        return en

    def _choose(self, current: t.Optional[int], why: str) -> t.Optional[int]:
        en = self._enabled(current)
        if not en:
            return None
        k = len(self.points)
        if k < len(self.prefix):
            c = self.prefix[k]
            if c >= len(en):
                raise ScheduleDivergence(f"choice {c} out of range at point {k} (enabled {en})")
            if self.expect is not None and k < len(self.expect) and tuple(en) != tuple(self.expect[k]):
                raise ScheduleDivergence(f"replaying a prefix: enabled set {en} at point {k} differs from the recorded {self.expect[k]}")
        else:
            c = 0
        self.points.append((tuple(en), c, current is not None and current in en))
        self.choices.append(c)
        return en[c]

    def _switch(self, me: int, nxt: t.Optional[int]) -> None:
        """Hand the baton to `nxt` and wait until it comes back to `me`."""
        if nxt == me:
            return
        if nxt is None:
            # nobody can run: deadlock (me is blocked) - wake main and park
            self.deadlock = True
            self.main_sem.release()
            self.sems[me].acquire()
            return
        self.running = nxt
        self.sems[nxt].release()
        self.sems[me].acquire()

    def point(self, tid: int, why: str) -> None:
        try:
            nxt = self._choose(tid, why)
        except ScheduleDivergence as e:
            self.failure = e
            nxt = tid
        self._switch(tid, nxt)

    def block(self, tid: int, lock: CoopLock) -> None:
        self.blocked[tid] = lock
        try:
            nxt = self._choose(None, 'blocked')
        except ScheduleDivergence as e:
            self.failure = e
            nxt = None
        self._switch(tid, nxt)

    def unblock(self, lock: CoopLock) -> None:
        for tid in [k for k, v in self.blocked.items() if v is lock]:
            del self.blocked[tid]

    def _tracer(self, tid: int):
        watched = self.watched
        run = self

        def local(frame, event, arg):
            if event == 'line':
                run.point(tid, 'line')
            return local

        def glob(frame, event, arg):
            if event == 'call' and frame.f_code in watched:
                run.point(tid, 'call')
                return local
            return None
        return glob

    def _thread_main(self, tid: int) -> None:
        self.idents[threading.get_ident()] = tid
        self.sems[tid].acquire()             # wait for the first turn
        sys.settrace(self._tracer(tid))
        try:
            self.results[tid] = self.bodies[tid]()
        except BaseException as e:  # noqa
            self.errors[tid] = e
        finally:
            sys.settrace(None)
            self.finished[tid] = True
            try:
                nxt = self._choose(None, 'finished')
            except ScheduleDivergence as e:
                self.failure = e
                nxt = next((i for i in range(self.n) if not self.finished[i] and i not in self.blocked), None)
            if nxt is None:
                if not all(self.finished):
                    self.deadlock = True
                self.main_sem.release()
            else:
                self.running = nxt
                self.sems[nxt].release()

    def execute(self) -> 'Run':
        threads = [threading.Thread(target=self._thread_main, args=(i,), daemon=True) for i in range(self.n)]
        for th in threads:
            th.start()
        first = self._choose(None, 'start')
        assert first is not None
        self.running = first
        self.sems[first].release()
        self.main_sem.acquire()
        if self.deadlock:
            # release parked threads so that they can exit: mark everything finished and let them run to completion untraced
            return self
        for th in threads:
            th.join(timeout=10)
        return self

    def preemptions_before(self, i: int) -> int:
        n = 0
        for (en, c, cur_enabled) in self.points[:i]:
            if cur_enabled and c != 0:
                n += 1
        return n


class Explorer:
    def __init__(self, make_bodies: t.Callable[[t.Callable[[], 'Run']], t.Tuple[t.Sequence[t.Callable[[], t.Any]], t.Callable[['Run'], t.Optional[str]]]],
                 watched: t.Set[t.Any], bound: int, max_schedules: int = 200000):
        self.make = make_bodies
        self.watched = watched
        self.bound = bound
        self.max_schedules = max_schedules
        self.schedules = 0
        self.points_total = 0
        self.violations: t.List[t.Tuple[t.List[int], str]] = []
        self.outcomes: t.Dict[str, int] = {}
        self.capped = False
        self.max_points = 0

    def run_once(self, prefix: t.Sequence[int], expect=None) -> t.Tuple['Run', t.Optional[str], str]:
        holder: t.Dict[str, Run] = {}
        bodies, check = self.make(lambda: holder['run'])
        run = Run(bodies, self.watched, prefix, expect)
        holder['run'] = run
        run.execute()
        if run.failure is not None:
            raise run.failure
        problem = None
        if run.deadlock:
            problem = 'deadlock: no enabled thread but not all finished'
        else:
            for tid, e in enumerate(run.errors):
                if e is not None:
                    problem = f"thread {tid} raised {type(e).__name__}: {e}"
                    break
            if problem is None:
                problem = check(run)
        outcome = 'deadlock' if run.deadlock else repr([repr(r)[:40] for r in run.results])
        return run, problem, outcome

    def explore(self, prefix: t.Optional[t.List[int]] = None) -> None:
        stack: t.List[t.Tuple[t.List[int], t.Optional[t.List[t.Tuple[int, ...]]]]] = [(list(prefix or []), None)]
        while stack:
            pre, expect = stack.pop()
            if self.schedules >= self.max_schedules:
                self.capped = True
                return
            run, problem, outcome = self.run_once(pre, expect)
            self.schedules += 1
            self.points_total += len(run.points)
            self.max_points = max(self.max_points, len(run.points))
            self.outcomes[outcome] = self.outcomes.get(outcome, 0) + 1
            if problem:
                self.violations.append((list(run.choices), problem))
                if len(self.violations) >= 5:
                    return
            for i in range(len(pre), len(run.points)):
                en, c, cur_enabled = run.points[i]
                base = run.preemptions_before(i)
                for alt in range(1, len(en)):
                    cost = base + (1 if cur_enabled else 0)
                    if cost > self.bound:
                        continue
                    stack.append((run.choices[:i] + [alt], [p[0] for p in run.points[:i + 1]]))
