"""
Value universes for E1: canonical keys / typed deep equality, value expressions (for replay files), the fixed POOL of
interchange values, per-type members (data that the reference model says denotes a member) and single-deviation
mutants of data.
"""
from __future__ import annotations

import collections
import collections.abc
import datetime
import decimal
import fractions
import math
import pathlib
import re
import types
import typing as t

INF = float('inf')
NAN = float('nan')


class BareMapping(collections.abc.Mapping):
    """The least a mapping can be: the three abstract methods of collections.abc.Mapping and nothing else (no .copy(), no
    .pop(), not a dict).  pane documents any Mapping as interchange data."""
    __slots__ = ('_d',)

    def __init__(self, d=()):
        self._d = dict(d)

    def __getitem__(self, k):
        return self._d[k]

    def __iter__(self):
        return iter(self._d)

    def __len__(self):
        return len(self._d)

    def __repr__(self):
        return f"BareMapping({self._d!r})"


MAPS = (dict, types.MappingProxyType, BareMapping)


# ------------------------------------------------------------------ expressions (replayable spelling of a value)

def _ns():
    from mc import grammar
    ns = {
        'inf': INF, 'nan': NAN, 'Decimal': decimal.Decimal, 'Fraction': fractions.Fraction,
        'datetime': datetime, 'date': datetime.date, 'time': datetime.time,
        'PurePath': pathlib.PurePath, 'PurePosixPath': pathlib.PurePosixPath, 'PosixPath': pathlib.PosixPath,
        'Path': pathlib.Path, 're': re, 'deque': collections.deque, 'Counter': collections.Counter,
        'defaultdict': collections.defaultdict, 'OrderedDict': collections.OrderedDict,
        'mappingproxy': types.MappingProxyType, 'frozenset': frozenset, 'set': set, 'bytearray': bytearray,
        'complex': complex, 'range': range, 'BareMapping': BareMapping,
    }
    for n in ('EnumInt', 'EnumStr', 'EnumMixed', 'EnumStrMix', 'EnumIntMix', 'EnumNum', 'EnumSwap', 'SubDate', 'SubStr', 'SubInt', 'SubFloat', 'SubList', 'SubDict', 'NestedRender'):
        ns[n] = getattr(grammar, n)
    ns['dc'] = grammar.dc_class
    return ns


_NS: t.Optional[dict] = None


def eval_expr(s: str):
    global _NS
    if _NS is None:
        _NS = _ns()
    return eval(s, _NS)  # noqa: S307 - expressions are produced by expr() below


def expr(v) -> str:
    """A Python expression that eval_expr() turns back into an equal value of the same types."""
    ty = type(v)
    if ty is int and (v > 10 ** 4000 or v < -10 ** 4000):
        return hex(v)        # repr() of such an int exceeds sys.get_int_max_str_digits(); hex() has no limit
    if v is None or ty in (bool, int, str, bytes):
        return repr(v)
    if ty is float:
        if v != v:
            return 'nan'
        if v in (INF, -INF):
            return 'inf' if v > 0 else '-inf'
        return repr(v)
    if ty is complex:
        return f"complex({expr(v.real)}, {expr(v.imag)})"
    if ty is bytearray:
        return f"bytearray({bytes(v)!r})"
    if ty is list:
        return '[' + ', '.join(expr(x) for x in v) + ']'
    if ty is tuple:
        return '(' + ''.join(expr(x) + ', ' for x in v) + ')'
    if ty is dict:
        return '{' + ', '.join(f"{expr(k)}: {expr(x)}" for k, x in v.items()) + '}'
    if ty is types.MappingProxyType:
        return f"mappingproxy({expr(dict(v))})"
    if ty is BareMapping:
        return f"BareMapping({expr(dict(v))})"
    if ty in (set, frozenset):
        return f"{ty.__name__}([{', '.join(sorted(expr(x) for x in v))}])"
    if ty is collections.deque:
        return f"deque({expr(list(v))})"
    if ty is collections.Counter:
        return f"Counter({expr(dict(v))})"
    if ty is collections.OrderedDict:
        return f"OrderedDict({expr(dict(v))})"
    if ty is collections.defaultdict:
        return f"defaultdict(None, {expr(dict(v))})"
    if ty is decimal.Decimal:
        return f"Decimal({str(v)!r})"
    if ty is fractions.Fraction:
        return f"Fraction({v.numerator}, {v.denominator})"
    if ty.__name__ == 'SubDate':
        return f"SubDate.fromisoformat({v.isoformat()!r})"
    if ty in (datetime.date, datetime.time, datetime.datetime):
        return f"{ty.__name__ if ty is not datetime.datetime else 'datetime.datetime'}.fromisoformat({v.isoformat()!r})"
    if isinstance(v, pathlib.PurePath):
        return f"{ty.__name__}({str(v)!r})"
    if isinstance(v, re.Pattern):
        return f"re.compile({v.pattern!r})"
    import enum
    if isinstance(v, enum.Enum):
        return f"{ty.__name__}.{v.name}"
    if ty.__name__ in ('SubStr', 'SubInt', 'SubFloat'):
        return f"{ty.__name__}({expr(ty.__mro__[1](v))})"
    if ty.__name__ == 'SubList':
        return f"SubList({expr(list(v))})"
    if ty.__name__ == 'SubDict':
        return f"SubDict({expr(dict(v))})"
    if hasattr(ty, '__pane_info__'):
        from mc import grammar
        for leaf, c in grammar._DC_CACHE.items():
            if c is ty:
                fs = {f.name: getattr(v, f.name) for f in ty.__pane_info__.fields if f.init}
                return f"dc({leaf!r}).make_unchecked(" + ', '.join(f"{k}={expr(x)}" for k, x in fs.items()) + ")"
    return repr(v)


# ------------------------------------------------------------------ canonical keys and typed deep equality

def ckey(v):
    """Hashable canonical form: types and values at every depth; nan == nan; sets unordered."""
    ty = type(v)
    if ty is float:
        return ('float', 'nan') if v != v else ('float', repr(v))
    if ty is complex:
        return ('complex', ckey(v.real), ckey(v.imag))
    if ty is decimal.Decimal:
        return ('Decimal', str(v))
    if v is None or ty in (bool, int, str, bytes):
        return (ty.__name__, v)
    if ty is bytearray:
        return ('bytearray', bytes(v))
    if isinstance(v, (list, tuple, collections.deque)):
        return (ty.__name__, tuple(ckey(x) for x in v))
    if isinstance(v, (set, frozenset)):
        return (ty.__name__, tuple(sorted((ckey(x) for x in v), key=repr)))
    if isinstance(v, MAPS):
        extra = ()
        if ty is collections.defaultdict:
            extra = (repr(v.default_factory),)
        return (ty.__name__, tuple((ckey(k), ckey(x)) for k, x in v.items())) + extra
    if isinstance(v, re.Pattern):
        return ('Pattern', ckey(v.pattern), v.flags)
    if hasattr(ty, '__pane_info__'):
        # (fields the user excluded from output are outside every round trip by definition - "modulo fields the user excluded")
        return (ty.__module__, ty.__qualname__, id(ty),
                tuple((f.name, ckey(getattr(v, f.name, '<unset>'))) for f in ty.__pane_info__.fields if not getattr(f, 'exclude', False)))
    import enum
    if isinstance(v, enum.Enum):
        return ('enum', ty.__name__, v.name)
    if isinstance(v, fractions.Fraction):
        return (ty.__name__, v.numerator, v.denominator)
    if isinstance(v, (datetime.date, datetime.time, pathlib.PurePath)):
        return (ty.__name__, repr(v))
    if isinstance(v, (int, float, str)):  # subclasses
        return (ty.__name__, ckey(ty.__mro__[1](v)))
    try:
        import numpy
        if isinstance(v, numpy.ndarray):
            return ('ndarray', str(v.dtype), v.shape, repr(v.tolist()))
    except ImportError:
        pass
    if ty.__name__ == 'ValueOrList':
        return ('ValueOrList', v._is_val, ckey(v._inner))
    return ('other', ty.__name__, repr(v))


def ckey_unordered(v):
    """Like ckey but dict order is ignored (dict equality ignores order)."""
    k = ckey(v)
    return _unorder(k)


def _unorder(k):
    if isinstance(k, tuple):
        if k and k[0] in ('dict', 'mappingproxy', 'BareMapping', 'OrderedDict', 'defaultdict', 'Counter', 'SubDict') and len(k) >= 2 and isinstance(k[1], tuple):
            items = tuple(sorted((_unorder(i) for i in k[1]), key=repr))
            return (k[0], items) + tuple(k[2:])
        return tuple(_unorder(x) for x in k)
    return k


def typed_eq(a, b) -> bool:
    return ckey_unordered(a) == ckey_unordered(b)


def kind(v) -> str:
    ty = type(v)
    if v is None:
        return 'none'
    if ty is bool:
        return 'bool'
    if ty is int:
        return 'int'
    if ty is float:
        return 'float'
    if ty is complex:
        return 'complex'
    if ty is str or isinstance(v, str):
        return 'str'
    if ty is bytes:
        return 'bytes'
    if ty is bytearray:
        return 'bytearray'
    if ty in (list, tuple):
        return 'seq'
    if isinstance(v, MAPS):
        return 'map'
    return 'other'


# ------------------------------------------------------------------ the fixed pool of interchange values

POOL: t.List[t.Any] = [
    None, True, False, 0, 1, -1, 7, 10 ** 20, 0.0, -0.0, 1.5, -2.0, 1.0, INF, NAN, 1e300, complex(1, 2),
    '', 'a', 'abc', 'x', '12', '1.5', 'true', '2023-09-05', '11:11:11', '2023-09-05T11:11:11', '1/3', 'a/b', '(',
    '2023-13-01T00:00:00Z', '25:00Z', '~/d',
    b'', b'ab', bytearray(b'ab'),
    [], [1], [1, 2], ['a'], [1, 'a'], [[1]], [None], [True], [1.5], (), (1,), (1, 2), ('a', 1), (1, 'x'), [1, 2, 3],
    {}, {'a': 1}, {'a': 'b'}, {1: 2}, {'x': 1, 'y': 2}, {'a': [1]}, [{'a': 1}], {'k': 1}, {'k': 'a', 'j': None},
    {'a': 1, 'b': 'x'}, {'a': 1, 'b': 'x', 'c': 0}, types.MappingProxyType({'a': 1}),
]

# wrong-kind atoms substituted at one position of a member to obtain the "one deviation" neighbours
ATOMS: t.List[t.Any] = [None, True, 0, -3, 2.5, complex(0, 1), 'q', '5', b'q', [], [0], {}, {'q': 0}]
ATOMS_SMALL: t.List[t.Any] = [None, True, 2.5, 'q', [], {}]


def mutate1(v, atoms=ATOMS, _top=True) -> t.Iterator[t.Any]:
    """All values at exactly one structural deviation from `v` (fresh containers every time)."""
    k = kind(v)
    if k == 'seq':
        ty = type(v)
        lst = list(v)
        for i in range(len(lst)):
            for m in mutate1(lst[i], atoms if len(lst) <= 2 else ATOMS_SMALL, False):
                yield ty(lst[:i] + [m] + lst[i + 1:])
            yield ty(lst[:i] + lst[i + 1:])                       # drop one element
        yield ty(lst + [None])                                    # add an element
        if lst:
            yield ty(lst + [lst[0]])
        yield (tuple if ty is list else list)(lst)               # other sequence spelling
        if _top:
            yield {i: x for i, x in enumerate(lst)}               # mapping instead of sequence
            yield ''.join(x for x in lst if isinstance(x, str)) or 'ab'
    elif k == 'map':
        items = list(v.items())
        for i, (kk, x) in enumerate(items):
            for m in mutate1(x, atoms if len(items) <= 2 else ATOMS_SMALL, False):
                yield dict(items[:i] + [(kk, m)] + items[i + 1:])
            yield dict(items[:i] + items[i + 1:])                 # drop a key
            for nk in _rename_key(kk):
                if nk not in v:
                    yield dict(items[:i] + [(nk, x)] + items[i + 1:])   # rename a key
        for nk in ('zz', 0, None):
            if nk not in v:
                yield dict(items + [(nk, 1)])                     # add an unknown key
        if _top and 'zz' not in v and 0 not in v:
            yield dict(items + [('zz', 1), (0, 1)])               # two unknown keys that cannot be ordered against each other
        if _top:
            yield [x for _, x in items]                           # sequence instead of mapping
            yield [[kk, x] for kk, x in items]                    # list of pairs
            yield types.MappingProxyType(dict(items))
            yield BareMapping(dict(items))
    else:
        for a in atoms:
            if type(a) is not type(v) or a != v:
                yield a


def _twin(x):
    """A value == x of a different kind, if there is one (int <-> float, bool -> int)."""
    if type(x) is bool:
        return int(x)
    if type(x) is int and abs(x) < 2 ** 53:
        return float(x)
    if type(x) is float and x == x and abs(x) < 2 ** 53 and x == int(x):
        return int(x)
    return None


def inflate(v, n, _depth=0) -> t.Iterator[t.Any]:
    """The value made LARGE (about n elements): its outermost container repeated, the same with one wrong element at the far
    end, and the value with its first child made large.  Verdicts come from the reference model like for any other value; the
    point is to cross size thresholds (fast paths, chunking, caches keyed by a prefix) that two-element values never reach."""
    k = kind(v)
    if k == 'seq' and len(v) > 0:
        ty = type(v)
        lst = list(v)
        big = [fresh(lst[i % len(lst)]) for i in range(n)]
        yield ty(big)
        if _depth == 0:
            yield ty([fresh(x) for x in big[:-1]] + ['q#'])
            yield ty([fresh(x) for x in big[:-1]] + [None])
            # an element that is == to the others but of another kind (1 / 1.0 / True), last and first: a memo keyed by the
            # element's value would hand it the result of its twin
            tw = _twin(lst[0])
            if tw is not None:
                yield ty([fresh(x) for x in big[:-1]] + [tw])
                yield ty([tw] + [fresh(x) for x in big[1:]])
            for c in inflate(lst[0], n, 1):
                yield ty([c] + [fresh(x) for x in lst[1:]])
    elif k == 'map' and len(v) > 0:
        items = list(v.items())
        k0, x0 = items[0]
        if isinstance(k0, str):
            more = [f"{k0}{i}" for i in range(n)]
        elif isinstance(k0, int) and not isinstance(k0, bool):
            more = [k0 + 1000 + i for i in range(n)]
        else:
            return
        more = [m for m in more if m not in v]
        yield dict([(a, fresh(b)) for a, b in items] + [(m, fresh(x0)) for m in more])
        if _depth == 0:
            tw = _twin(x0)
            if tw is not None:
                yield dict([(a, fresh(b)) for a, b in items] + [(m, fresh(x0)) for m in more[:-1]] + [(more[-1], tw)])
            yield dict([(a, fresh(b)) for a, b in items] + [(m, fresh(x0)) for m in more[:-1]] + [(more[-1], 'q#')])
            yield dict([(a, fresh(b)) for a, b in items] + [(m, fresh(x0)) for m in more[:-1]] + [(more[-1], None)])
            for c in inflate(x0, n, 1):
                yield dict([(k0, c)] + [(a, fresh(b)) for a, b in items[1:]])
    elif type(v) is str and v and _depth == 0:
        yield v * n


def _rename_key(k):
    if isinstance(k, str):
        yield k.upper() if k.upper() != k else k.lower()
        yield k + '_'
    else:
        yield str(k)


def dedupe(vals: t.Iterable[t.Any]) -> t.List[t.Any]:
    seen = set()
    out = []
    for v in vals:
        k = ckey(v)
        if k not in seen:
            seen.add(k)
            out.append(v)
    return out


def fresh(v):
    """Deep copy of interchange data with fresh mutable containers (list/dict), other objects shared."""
    ty = type(v)
    if ty is list:
        return [fresh(x) for x in v]
    if ty is tuple:
        return tuple(fresh(x) for x in v)
    if ty is dict:
        return {k: fresh(x) for k, x in v.items()}
    if ty is types.MappingProxyType:
        return types.MappingProxyType({k: fresh(x) for k, x in v.items()})
    if ty is BareMapping:
        return BareMapping({k: fresh(x) for k, x in v.items()})
    if ty is bytearray:
        return bytearray(v)
    return v


def is_interchange(v) -> bool:
    """Only documented interchange values, at every depth (exact scalar types, list/tuple, dict)."""
    ty = type(v)
    if v is None or ty in (bool, int, float, complex, str, bytes):
        return True
    if ty in (list, tuple):
        return all(is_interchange(x) for x in v)
    if ty is dict:
        return all(is_interchange(k) and is_interchange(x) for k, x in v.items())
    return False


def nan_in(v) -> bool:
    ty = type(v)
    if ty is float:
        return v != v
    if ty is complex:
        return v.real != v.real or v.imag != v.imag
    if ty is decimal.Decimal:
        return v.is_nan()
    if isinstance(v, (list, tuple, set, frozenset, collections.deque)):
        return any(nan_in(x) for x in v)
    if isinstance(v, MAPS):
        return any(nan_in(k) or nan_in(x) for k, x in v.items())
    return False


__all__ = ['POOL', 'ATOMS', 'expr', 'eval_expr', 'ckey', 'typed_eq', 'kind', 'mutate1', 'dedupe', 'fresh', 'math']
