"""
E1 type grammar: JSON-able type ASTs, their equivalent spellings as real Python type objects, and the fixtures
(enums, scalar/container subclasses, a fixed family of pane dataclasses described by ClassSpecs).

AST: a leaf is a string ('int', 'dc_struct', ...); a composite is a list [ctor, child...]:
  ['list',T] ['tuplevar',T] ['set',T] ['frozenset',T] ['deque',T] ['optional',T]
  ['tuple',A,B,...] ['dict',K,V] ['defaultdict',K,V] ['ordereddict',K,V] ['counter',K]
  ['union',A,B,...] ['struct',[k,T],...] ['tuplelit',A,B,...] ['annot',T,cond]
Every type object built here is pinned in REGISTRY for the life of the process (see DESIGN 2.2).
"""
from __future__ import annotations

import collections
import collections.abc
import datetime
import decimal
import enum
import fractions
import os
import pathlib
import re
import typing as t

from mc import classes_gen

REGISTRY: t.List[t.Any] = []     # pins every type object we ever build


def pin(x):
    REGISTRY.append(x)
    return x


# ------------------------------------------------------------------ fixtures: enums and subclasses

class EnumInt(enum.Enum):
    A = 1
    B = 2


class EnumStr(enum.Enum):
    X = 'x'
    Y = 'y'


class EnumMixed(enum.Enum):
    ONE = 1
    S = 's'
    N = None


class EnumStrMix(str, enum.Enum):        # the pre-3.11 spelling of a string enum
    RED = 'red'
    BLUE = 'blue'


class EnumSwap(enum.Enum):
    # every value is spelled like the NAME of the other member (a lookup by name must not take precedence)
    LEFT = 'RIGHT'
    RIGHT = 'LEFT'


class EnumNum(enum.Enum):
    """int- and float-valued members side by side: 1.0 is neither of them."""
    B = 2.5      # (the float-valued member first: the int 1 must still find A)
    A = 1


class EnumIntMix(enum.IntEnum):
    LO = 1
    HI = 2


class NestedRender:
    """A value whose str() itself renders a pane error (rendering must be re-entrant)."""
    def __repr__(self):
        return 'NestedRender()'

    def __str__(self):
        import pane
        try:
            pane.from_data({'deep': ['x']}, t.Dict[str, t.List[int]])
        except pane.errors.ConvertError as e:
            return 'inner<' + str(e) + '>'
        return 'inner<?>'

    def __eq__(self, other):
        return type(other) is NestedRender

    def __hash__(self):
        return 7


class SubStr(str):
    pass


class SubInt(int):
    pass


class SubFloat(float):
    pass


class SubDate(datetime.date):
    pass


class SubList(list):
    pass


class SubDict(dict):
    pass


# ------------------------------------------------------------------ fixtures: dataclass specs (built lazily)

def _f(name, ty, default=None, **kw):
    return dict(name=name, type=ty, default=default, **kw)


DC_SPECS = {
    # struct-only, two required fields
    'dc_struct': dict(name='DcStruct', opts={}, fields=[_f('a', 'int'), _f('b', 'str')]),
    # tuple + struct input, defaults
    'dc_both': dict(name='DcBoth', opts={'in_format': ['tuple', 'struct']},
                    fields=[_f('a', 'int'), _f('b', 'str', ['value', "'x'"])]),
    # tuple layout whose positional fields are strings (a str datum must not bind character-wise)
    'dc_strs': dict(name='DcStrs', opts={'in_format': ['tuple', 'struct']},
                    fields=[_f('a', 'str'), _f('b', 'str', ['value', "'z'"])]),
    # defaults only
    'dc_defaults': dict(name='DcDefaults', opts={},
                        fields=[_f('a', 'int', ['value', '3']), _f('b', 'float', ['value', '5.0'])]),
    # default_factory
    'dc_factory': dict(name='DcFactory', opts={'in_format': ['struct', 'tuple']},
                       fields=[_f('a', 'int', ['value', '1']), _f('b', ['list', 'int'], ['factory', 'list'])]),
    # kw-only field + tuple input
    'dc_kwonly': dict(name='DcKwonly', opts={'in_format': ['tuple', 'struct']},
                      fields=[_f('a', 'int'), _f('k', 'str', ['value', "'k'"], kw_only=True), _f('b', 'float', ['value', '0.5'])]),
    # aliases / rename / in_names / out_name, multi-word names, class rename
    'dc_alias': dict(name='DcAlias', opts={'rename': 'camel'},
                     fields=[_f('my_field', 'int', aliases=['mf']), _f('other_one', 'str', ['value', "'o'"])]),
    'dc_names': dict(name='DcNames', opts={},
                     fields=[_f('a', 'int', in_names=['a', 'aa']), _f('b', 'str', ['value', "'b'"], rename='bee')]),
    # tuple output
    'dc_tupleout': dict(name='DcTupleout', opts={'in_format': ['tuple', 'struct'], 'out_format': 'tuple'},
                        fields=[_f('a', 'int'), _f('b', 'float', ['value', '2.0'])]),
    # raising __post_init__
    'dc_post': dict(name='DcPost', opts={'in_format': ['struct', 'tuple']},
                    fields=[_f('a', 'int'), _f('b', 'int', ['value', '0'])],
                    post=['raise_if', 'a', '13', 'ValueError']),
    # init=False field in front of a positional one (the class sets it itself), excluded from output
    'dc_noinit': dict(name='DcNoinit', opts={'in_format': ['tuple', 'struct']},
                      fields=[_f('a', 'int'), _f('h', ['list', 'int'], init=False, exclude=True, compare=False, repr=False),
                              _f('c', 'str', ['value', "'c'"])],
                      init_false_setter=[['h', '[]']]),
    # class-level rename style together with a field that has aliases (the Python name stays an input name of that field)
    'dc_renalias': dict(name='DcRenalias', opts={'rename': 'camel'},
                        fields=[_f('max_retries', 'int', aliases=['retries']), _f('colour_name', 'str', ['value', "'red'"])]),
    # a field that is neither written nor compared (so neither hashed): instances that differ in it only are the same set member
    'dc_hidden': dict(name='DcHidden', opts={},
                      fields=[_f('a', 'int'), _f('note', 'str', ['value', "'n'"], exclude=True, compare=False)]),
    # an output name that is not an input name: read under the Python name only
    'dc_outname': dict(name='DcOutname', opts={},
                       fields=[_f('size', 'int', out_name='len'), _f('note', 'str', ['value', "'n'"])]),
    # a class that is not frozen and whose __post_init__ fills a field in by ordinary attribute assignment
    'dc_assign': dict(name='DcAssign', opts={'in_format': ['struct', 'tuple'], 'frozen': False},
                      fields=[_f('a', 'int'), _f('h', 'str', init=False, exclude=True, compare=False, repr=False),
                              _f('c', 'str', ['value', "'c'"])],
                      init_false_setter=[['h', "'set'"]], plain_setattr=True),
    # the same in front of another positional field, with tuple OUTPUT (round trips through the positional layout)
    'dc_noinit_tuple': dict(name='DcNoinitTuple', opts={'in_format': ['tuple', 'struct'], 'out_format': 'tuple'},
                            fields=[_f('start', 'fraction'), _f('label', 'str', init=False, exclude=True, compare=False, repr=False),
                                    _f('stop', 'fraction'), _f('n', 'int', ['value', '2'])],
                            init_false_setter=[['label', "'lbl'"]]),
    # allow_extra
    'dc_extra': dict(name='DcExtra', opts={'allow_extra': True}, fields=[_f('a', 'int'), _f('b', 'bool', ['value', 'True'])]),
    # nested dataclass field
    'dc_nested': dict(name='DcNested', opts={'in_format': ['struct', 'tuple']},
                      fields=[_f('p', 'dc_both'), _f('q', ['optional', 'dc_struct'], ['value', 'None'])]),
}

# an Optional field whose default is not None (an explicit None must survive), class style + field rename not in that style
DC_SPECS['dc_optdef'] = dict(name='DcOptdef', opts={}, fields=[_f('name', 'str'), _f('retries', ['optional', 'int'], ['value', '3']),
                                                                _f('tags', ['optional', ['list', 'int']], ['factory', 'list'])])
DC_SPECS['dc_renstyle'] = dict(name='DcRenstyle', opts={'rename': 'camel'},
                               fields=[_f('unit_price', 'int', rename='Unit_Price'), _f('item_count', 'int', ['value', '1'])])
# three product levels: the middle one has a required field next to the nested one
DC_SPECS['dc_mid'] = dict(name='DcMid', opts={}, fields=[_f('c', 'dc_struct'), _f('req', 'int'), _f('opt', 'int', ['value', '0'])])
DC_SPECS['dc_deep'] = dict(name='DcDeep', opts={}, fields=[_f('m', 'dc_mid')])
# natively typed field values of every scalar family (constructors must accept already-typed arguments unchanged)
DC_SPECS['dc_rich'] = dict(name='DcRich', opts={'in_format': ['struct', 'tuple']},
                           fields=[_f('f', 'fraction'), _f('d', 'date', ['value', "date.fromisoformat('2020-02-02')"]),
                                   _f('p', 'purepath', ['value', "PurePath('x/y')"]), _f('s', ['set', 'int'], ['factory', 'set']),
                                   _f('e', 'enum_int', ['value', 'EnumInt.B']), _f('n', ['optional', 'dc_struct'], ['value', 'None']),
                                   _f('m', ['dict', 'str', 'decimal'], ['factory', 'dict'])])
# subclass of dc_struct adding a field (a Union[base, subclass] holding a subclass instance must serialise all of it)
DC_SPECS['dc_sub'] = dict(name='DcSub', opts={}, inherit='dc_struct',
                          own=[_f('c', 'float', ['value', '1.5'])],
                          fields=DC_SPECS['dc_struct']['fields'] + [_f('c', 'float', ['value', '1.5'])])

# a subclass that INHERITS a raising __post_init__ (nothing about the hook in its own body) and adds a field; tuple layout enabled
DC_SPECS['dc_post_sub'] = dict(name='DcPostSub', opts={'in_format': ['struct', 'tuple']}, inherit='dc_post',
                               own=[_f('c', 'int', ['value', '0'])],
                               fields=DC_SPECS['dc_post']['fields'] + [_f('c', 'int', ['value', '0'])],
                               post_model=DC_SPECS['dc_post']['post'])

# a SUBSCRIPTED generic dataclass whose field is another generic dataclass, partially re-parameterised: Outer[str] with
# p: Pair[T, int], tag: T  (the model describes the result of the substitution: p is Pair[str, int], tag is str)
DC_SPECS['dc_gen'] = dict(name='Outer', opts={}, generic=True, fields=[_f('p', 'dc_gen_pair'), _f('tag', 'str')])

_DC_CACHE: t.Dict[str, type] = {}
_GT, _GU = t.TypeVar('_GT'), t.TypeVar('_GU')


def _build_generic_fixtures():
    import pane
    from mc.classes_gen import new_class
    Pair = new_class('Pair', (pane.PaneBase, t.Generic[_GT, _GU]), {'__annotations__': {'a': _GT, 'b': _GU}, '__module__': 'mc.generated'})
    Outer = new_class('Outer', (pane.PaneBase, t.Generic[_GT]), {'__annotations__': {'p': Pair[_GT, int], 'tag': _GT}, '__module__': 'mc.generated'})
    REGISTRY.extend([Pair, Outer])
    _DC_CACHE['dc_gen'] = pin(Outer[str])
    _DC_CACHE['dc_gen_pair'] = pin(_DC_CACHE['dc_gen'].__pane_info__.fields[0].type)


def dc_class(leaf: str) -> type:
    c = _DC_CACHE.get(leaf)
    if c is None and leaf in ('dc_gen', 'dc_gen_pair'):
        _build_generic_fixtures()
        c = _DC_CACHE[leaf]
    if c is None:
        from mc import values
        spec = DC_SPECS[leaf]
        if spec.get('inherit'):
            c = classes_gen.build_class(dict(spec, fields=spec['own']), build, values.eval_expr, REGISTRY,
                                        bases=(dc_class(spec['inherit']),))
        else:
            c = classes_gen.build_class(spec, build, values.eval_expr, REGISTRY)
        _DC_CACHE[leaf] = c
    return c


# ------------------------------------------------------------------ leaves

def _pane_annotations():
    import pane.annotations as A
    return A


# type variables used outside a generic class are documented spellings too: a bound one stands for its bound, a free one for Any
TV_INT = t.TypeVar('TV_INT', bound=int)
TV_FREE = t.TypeVar('TV_FREE')

LEAF_TYPES: t.Dict[str, t.Callable[[], t.List[t.Any]]] = {
    'int': lambda: [int, int, TV_INT], 'float': lambda: [float], 'complex': lambda: [complex], 'str': lambda: [str],
    'bytes': lambda: [bytes], 'bytearray': lambda: [bytearray], 'bool': lambda: [bool],
    'none': lambda: [type(None)],
    'decimal': lambda: [decimal.Decimal], 'fraction': lambda: [fractions.Fraction],
    'date': lambda: [datetime.date], 'time': lambda: [datetime.time], 'datetime': lambda: [datetime.datetime],
    'pattern': lambda: [re.Pattern, t.Pattern, t.Pattern[str], re.Pattern[str]],
    'pattern_bytes': lambda: [t.Pattern[bytes], re.Pattern[bytes]],
    'purepath': lambda: [pathlib.PurePath], 'pureposixpath': lambda: [pathlib.PurePosixPath],
    'path': lambda: [pathlib.Path], 'pathlike': lambda: [os.PathLike],
    'any': lambda: [t.Any, t.Any, TV_FREE],
    'enum_int': lambda: [EnumInt], 'enum_str': lambda: [EnumStr], 'enum_mixed': lambda: [EnumMixed],
    'enum_strmix': lambda: [EnumStrMix], 'enum_intmix': lambda: [EnumIntMix], 'enum_num': lambda: [EnumNum], 'enum_swap': lambda: [EnumSwap],
    'lit_str': lambda: [t.Literal['a', 'b']], 'lit_mixed': lambda: [t.Literal[1, 'a', None]],
    # more than eight alternatives (a converter may switch to a table there), with 0 and False both present
    'lit_long': lambda: [t.Literal[0, False, 1, 2, 3, 4, 5, 'a', 'b', None]],
    'sub_str': lambda: [SubStr], 'sub_int': lambda: [SubInt], 'sub_float': lambda: [SubFloat], 'sub_date': lambda: [SubDate],
    'sub_list': lambda: [SubList], 'sub_dict': lambda: [SubDict],
    # bare (unparameterised) containers
    'bare_list': lambda: [list, t.List], 'bare_tuple': lambda: [tuple, t.Tuple, t.Sequence, collections.abc.Sequence],
    'bare_dict': lambda: [dict, t.Dict, t.Mapping, collections.abc.Mapping],
    'bare_set': lambda: [set, t.Set], 'bare_frozenset': lambda: [frozenset, t.FrozenSet],
    'empty_tuple': lambda: [t.Tuple[()], tuple[()]],
}
for _k in DC_SPECS:
    LEAF_TYPES[_k] = (lambda k=_k: [dc_class(k)])

ALL_LEAVES = list(LEAF_TYPES)      # leaves the reference model knows
DC_LEAVES = list(DC_SPECS)

DC_SPECS['dc_gen_pair'] = dict(name='Pair', opts={}, generic=True, fields=[_f('a', 'str'), _f('b', 'int')])
LEAF_TYPES['dc_gen_pair'] = (lambda: [dc_class('dc_gen_pair')])
# leaves the model knows but which are not enumerated on their own: the tag literals and variant classes of the tagged unions
LEAF_TYPES.update({'lit_v1': lambda: [t.Literal['v1']], 'lit_v2': lambda: [t.Literal['v2']], 'lit_1': lambda: [t.Literal[1]],
                   'lit_2': lambda: [t.Literal[2]]})
DC_SPECS.update({
    'dc_v1': dict(name='V1', fields=[_f('x', 'lit_v1', ['value', "'v1'"]), _f('y', 'int', ['value', '1'])]),
    'dc_v2': dict(name='V2', fields=[_f('x', 'lit_v2', ['value', "'v2'"]), _f('y', 'str', ['value', "'s'"])]),
    'dc_i1': dict(name='I1', fields=[_f('x', 'lit_1', ['value', '1']), _f('y', 'int', ['value', '1'])]),
    'dc_i2': dict(name='I2', fields=[_f('x', 'lit_2', ['value', '2']), _f('y', ['list', 'int'], ['factory', 'list'])]),
})
# a positional-OUTPUT dataclass holding an externally tagged union: each field is written by ITS declared type, in every layout
DC_SPECS['dc_tuptag'] = dict(name='DcTuptag', opts={'in_format': ['tuple', 'struct'], 'out_format': 'tuple'},
                             fields=[_f('n', 'int'), _f('u', 'tag_ext'), _f('w', 'tag_adj')])
# containers of typed values as constructor arguments: a list of dataclass instances, a mapping of sets
DC_SPECS['dc_listdc'] = dict(name='DcListdc', opts={}, fields=[_f('items', ['list', 'dc_struct']), _f('groups', ['dict', 'str', ['set', 'int']], ['factory', 'dict'])])
# a hook that reads the record of supplied fields: it must see the same record on every construction path and in both passes
DC_SPECS['dc_setpost'] = dict(name='DcSetpost', opts={'in_format': ['struct', 'tuple']},
                              fields=[_f('a', 'int'), _f('b', 'int', ['value', '0'])], post=['raise_if_set', 'b', 'ValueError'])
# a default its own field type does not accept (stored as it is when the field is absent; refused when it is GIVEN)
DC_SPECS['dc_baddef'] = dict(name='DcBaddef', opts={'in_format': ['struct', 'tuple']},
                             fields=[_f('a', 'int', ['value', 'None']), _f('b', 'int', ['value', '0']), _f('c', 'bool', ['value', 'False'])])
for _k in ('dc_v1', 'dc_v2', 'dc_i1', 'dc_i2', 'dc_tuptag', 'dc_listdc', 'dc_baddef', 'dc_setpost'):
    LEAF_TYPES[_k] = (lambda k=_k: [dc_class(k)])
# tagged unions over them: (layout, {tag: variant leaf})
TAGGED = {'tag_int': ('internal', {'v1': 'dc_v1', 'v2': 'dc_v2'}), 'tag_ext': ('external', {'v1': 'dc_v1', 'v2': 'dc_v2'}),
          'tag_adj': ('adjacent', {'v1': 'dc_v1', 'v2': 'dc_v2'}), 'tag_num': ('adjacent', {1: 'dc_i1', 2: 'dc_i2'})}


# ------------------------------------------------------------------ extra leaves (no reference model; used by the
# model-free checks C03 C04 C07 C08 C09): tagged unions, HasConverter classes, pane.types helpers, numpy arrays

class EnumTuple(enum.Enum):
    P = (1, 2)
    Q = ('a',)


_EXT_CACHE: t.Dict[str, t.Any] = {}


def _ext(name):
    r = _EXT_CACHE.get(name)
    if r is not None:
        return r
    import pane
    from pane.annotations import Tagged
    from pane.converters import Converter
    from pane.errors import ParseInterrupt, WrongTypeError
    if not _EXT_CACHE:
        # (the variants are ordinary fixture dataclasses of the reference model: dc_v1 ... dc_i2)
        V1, V2, I1, I2 = dc_class('dc_v1'), dc_class('dc_v2'), dc_class('dc_i1'), dc_class('dc_i2')
        _EXT_CACHE['V1'], _EXT_CACHE['V2'] = V1, V2
        _EXT_CACHE['I1'], _EXT_CACHE['I2'] = I1, I2
        _EXT_CACHE['tag_int'] = pin(t.Annotated[t.Union[V1, V2], Tagged('x')])
        _EXT_CACHE['tag_ext'] = pin(t.Annotated[t.Union[V1, V2], Tagged('x', external=True)])
        _EXT_CACHE['tag_adj'] = pin(t.Annotated[t.Union[V1, V2], Tagged('x', external=('t', 'c'))])
        _EXT_CACHE['tag_num'] = pin(t.Annotated[t.Union[I1, I2], Tagged('x', external=('t', 'c'))])

        class Country:
            def __init__(self, code):
                self.code = code

            def __eq__(self, other):
                return type(other) is Country and other.code == self.code

            def __hash__(self):
                return hash(self.code)

            def __repr__(self):
                return f"Country({self.code!r})"

            @classmethod
            def _converter(cls, *args, handlers):
                if args:
                    raise TypeError("Country takes no type arguments")
                return CountryConverter()

        class CountryConverter(Converter):
            codes = ('gb', 'us', 'cn')

            def expected(self, plural=False):
                return 'country codes' if plural else 'a country code'

            def into_data(self, val):
                return val.code if isinstance(val, Country) else val

            def try_convert(self, val):
                if isinstance(val, Country):
                    return val
                if not isinstance(val, str) or val not in self.codes:
                    raise ParseInterrupt()
                return Country(val)

            def collect_errors(self, val):
                if isinstance(val, Country):
                    return None
                if not isinstance(val, str):
                    return WrongTypeError(self.expected(), val)
                if val not in self.codes:
                    return WrongTypeError(self.expected(), val, info=f"Unknown country code '{val}'")
                return None
        _EXT_CACHE['hasconv'] = pin(Country)
        from pane.types import ValueOrList, Range
        import numpy
        _EXT_CACHE['vol_int'] = pin(ValueOrList[int])
        _EXT_CACHE['vol_str'] = pin(ValueOrList[str])
        _EXT_CACHE['vol_tuple'] = pin(ValueOrList[t.Tuple[int, int]])
        _EXT_CACHE['vol_list'] = pin(ValueOrList[t.List[int]])
        _EXT_CACHE['vol_range'] = pin(ValueOrList[Range[int]])
        _EXT_CACHE['range_int'] = pin(Range[int])
        _EXT_CACHE['range_float'] = pin(Range[float])
        _EXT_CACHE['ndarray'] = numpy.ndarray
        _EXT_CACHE['ndarray_int'] = pin(numpy.ndarray[t.Any, numpy.dtype[numpy.int64]])
        _EXT_CACHE['enum_tuple'] = EnumTuple
    return _EXT_CACHE[name]


EXT_LEAVES = ['tag_int', 'tag_ext', 'tag_adj', 'tag_num', 'hasconv', 'vol_int', 'vol_str', 'vol_tuple', 'vol_list', 'vol_range',
              'range_int', 'range_float',
              'ndarray', 'ndarray_int', 'enum_tuple']
for _k in EXT_LEAVES:
    LEAF_TYPES[_k] = (lambda k=_k: [_ext(k)])
EXT_MEMBERS = {
    'tag_int': [{'x': 'v1', 'y': 3}, {'x': 'v2'}, {'y': 'q', 'x': 'v2'}],
    'tag_ext': [{'v1': {'y': 3}}, {'v2': {}}],
    'tag_adj': [{'t': 'v1', 'c': {'y': 3}}, {'c': {}, 't': 'v2'}, {'c': {'y': 'q'}, 't': 'v2'}],
    'tag_num': [{'t': 1, 'c': {'y': 3}}, {'t': 2, 'c': {'y': [1, 2]}}],
    'hasconv': ['gb', 'us'],
    'vol_int': [5, [1, 2], []], 'vol_str': ['a', ['a', 'b']],
    'vol_tuple': [(1, 2), [[1, 2], [3, 4]], [1, 2]], 'vol_list': [[1, 2], [[1], [2, 3]], []],
    'vol_range': [[0, 10, 11], [[0, 10, 11]], {'start': 0, 'end': 4, 'n': 5}],
    'range_int': [{'start': 0, 'end': 10, 'n': 11}, [0, 10, 11], {'start': 0, 'end': 10, 'step': 2}],
    'range_float': [{'start': 0.0, 'end': 1.0, 'n': 3}, [0.5, 1, 2]],
    'ndarray': [[[1, 2], [3, 4]], [1.5], 5, []], 'ndarray_int': [[1, 2], [[1], [2]], 3],
    'enum_tuple': [(1, 2), ['a'], [1, 2]],
}
# leaves whose images are hashable (usable as set elements / dict keys)
HASHABLE_LEAVES = ['int', 'float', 'complex', 'str', 'bytes', 'bool', 'none', 'decimal', 'fraction', 'date', 'time',
                   'datetime', 'pattern', 'purepath', 'enum_int', 'enum_str', 'enum_mixed', 'enum_strmix', 'enum_intmix', 'enum_num', 'enum_swap', 'lit_str', 'lit_mixed', 'lit_long',
                   'sub_str', 'sub_int', 'sub_date', 'empty_tuple']
# reduced leaf set for the second position of binary constructors and for depth 3
CORE_LEAVES = ['int', 'float', 'str', 'bool', 'none', 'bytes', 'decimal', 'any']
KEY_LEAVES = ['str', 'int', 'float', 'enum_str', 'lit_str', 'date']

CONDS = ['positive', 'len_le2', 'nonempty', 'raises', 'or_raises', 'len_0', 'le_m']
EXT_CONDS = ['nonbool', 'even']       # user predicates: returns a non-bool truthy/falsy value; a pure parity test


def cond_obj(name):
    A = _pane_annotations()
    c = _COND_CACHE.get(name)
    if c is None:
        if name == 'positive':
            c = A.Positive
        elif name == 'len_le2':
            c = A.len_range(max=2)
        elif name == 'nonempty':
            c = A.NonEmpty
        elif name == 'len_0':
            c = A.len_range(max=0)          # a bound that is falsy: still a bound
        elif name == 'le_m':
            c = A.val_range(max='m')        # a one-sided range over an ordered value that is not a number
        elif name == 'raises':
            def boom(v):
                raise PredicateBoom("predicate exploded")       # not in any builtin exception family
            c = A.Condition(boom, 'boom')
        elif name == 'or_raises':
            def boom2(v):
                raise PredicateBoom("predicate exploded")
            c = A.Condition(lambda v: False, 'never') | A.Condition(boom2, 'boom')
        elif name == 'nonbool':
            c = A.Condition(lambda v: 'yes' if v else '', 'truthy')
        elif name == 'even':
            c = A.Condition(lambda v: v % 2 == 0, 'even')
        else:
            raise KeyError(name)
        _COND_CACHE[name] = pin(c)
    return c


_COND_CACHE: t.Dict[str, t.Any] = {}


class PredicateBoom(Exception):
    pass


def cond_eval(name, image):
    """Reference evaluation of a condition on a converted value: True / False / 'raise'."""
    try:
        if name == 'positive':
            return bool(image > 0)
        if name == 'len_le2':
            return len(image) <= 2
        if name == 'nonempty':
            return len(image) != 0
        if name == 'len_0':
            return len(image) <= 0
        if name == 'le_m':
            return bool(image <= 'm')
        if name in ('raises', 'or_raises'):
            return 'raise'
    except Exception:
        return 'raise'
    raise KeyError(name)


# ------------------------------------------------------------------ spellings

def _key(ast):
    return repr(ast)


_BUILD_CACHE: t.Dict[t.Tuple[str, int], t.Any] = {}


def n_spellings(ast) -> int:
    if isinstance(ast, str):
        return len(LEAF_TYPES[ast]())
    return len(_SPELL[ast[0]])


def fresh_typing():
    """Empty typing's subscription caches: they compare arguments with ==, and Union equality ignores member order, so
    List[Union[B, A]] would otherwise BE the object made earlier for List[Union[A, B]]."""
    for f in t._cleanups:  # type: ignore[attr-defined]
        f()


def build(ast, sp: int = 0, child_sp: int = 0):
    """Real type object for `ast`; the outer node uses spelling `sp`, every node below uses `child_sp` (mod its count)."""
    k = (_key(ast), sp, child_sp)
    r = _BUILD_CACHE.get(k, _MISSING)
    if r is not _MISSING:
        return r
    if isinstance(ast, str):
        opts = LEAF_TYPES[ast]()
        r = opts[sp % len(opts)]
    else:
        ctor = ast[0]
        fns = _SPELL[ctor]
        if _has_union_below(ast):
            # typing caches List[X] & co. by *equality* of X, and Union equality ignores member order: without this,
            # List[Union[float, int]] would be the object built earlier for List[Union[int, float]] (members in that order)
            for f in t._cleanups:  # type: ignore[attr-defined]
                f()
        r = fns[sp % len(fns)](ast, child_sp)
    pin(r)
    _BUILD_CACHE[k] = r
    return r


_MISSING = object()


def _has_union_below(ast, top=True) -> bool:
    if isinstance(ast, str):
        return False
    if not top and ast[0] in ('union', 'optional'):
        return True
    kids = [v for _, v in ast[1:]] if ast[0] == 'struct' else [ast[1]] if ast[0] == 'annot' else ast[1:]
    return any(_has_union_below(k, False) for k in kids)


def _c(ast, child_sp, i):
    ch = ast[i]
    n = n_spellings(ch)
    if child_sp == 2 and not isinstance(ch, str):
        # child spelling 2 is about the LEAVES (type variables for int / Any): composites below keep their first spelling
        return build(ch, 0, child_sp)
    return build(ch, child_sp % n, child_sp)


def _cs(ast, child_sp, start=1):
    return tuple(_c(ast, child_sp, i) for i in range(start, len(ast)))


_SPELL: t.Dict[str, t.List[t.Callable[[t.Any, int], t.Any]]] = {
    'list': [lambda a, s: t.List[_c(a, s, 1)], lambda a, s: list[_c(a, s, 1)],
             lambda a, s: t.MutableSequence[_c(a, s, 1)], lambda a, s: collections.abc.MutableSequence[_c(a, s, 1)]],
    'tuplevar': [lambda a, s: t.Tuple[_c(a, s, 1), ...], lambda a, s: tuple[_c(a, s, 1), ...],
                 lambda a, s: t.Sequence[_c(a, s, 1)], lambda a, s: collections.abc.Sequence[_c(a, s, 1)]],
    'set': [lambda a, s: t.Set[_c(a, s, 1)], lambda a, s: set[_c(a, s, 1)],
            lambda a, s: t.MutableSet[_c(a, s, 1)], lambda a, s: collections.abc.MutableSet[_c(a, s, 1)]],
    'frozenset': [lambda a, s: t.FrozenSet[_c(a, s, 1)], lambda a, s: frozenset[_c(a, s, 1)],
                  lambda a, s: t.AbstractSet[_c(a, s, 1)], lambda a, s: collections.abc.Set[_c(a, s, 1)]],
    'deque': [lambda a, s: t.Deque[_c(a, s, 1)], lambda a, s: collections.deque[_c(a, s, 1)]],
    'optional': [lambda a, s: t.Optional[_c(a, s, 1)], lambda a, s: t.Union[_c(a, s, 1), None]],
    'tuple': [lambda a, s: t.Tuple[_cs(a, s)], lambda a, s: tuple[_cs(a, s)], lambda a, s: tuple(_cs(a, s))],
    'dict': [lambda a, s: t.Dict[_cs(a, s)], lambda a, s: dict[_cs(a, s)], lambda a, s: t.Mapping[_cs(a, s)],
             lambda a, s: t.MutableMapping[_cs(a, s)], lambda a, s: collections.abc.Mapping[_cs(a, s)],
             lambda a, s: collections.abc.MutableMapping[_cs(a, s)]],
    'defaultdict': [lambda a, s: t.DefaultDict[_cs(a, s)], lambda a, s: collections.defaultdict[_cs(a, s)]],
    'ordereddict': [lambda a, s: t.OrderedDict[_cs(a, s)], lambda a, s: collections.OrderedDict[_cs(a, s)]],
    'counter': [lambda a, s: t.Counter[_c(a, s, 1)], lambda a, s: collections.Counter[_c(a, s, 1)]],
    'union': [lambda a, s: t.Union[_cs(a, s)], lambda a, s: _nested_union(_cs(a, s))],
    'struct': [lambda a, s: {k: build(v, s % n_spellings(v), s) for (k, v) in a[1:]}],
    'annot': [lambda a, s: t.Annotated[_c(a, s, 1), cond_obj(a[2])]],
}


def _nested_union(members):
    # Union[A, Union[B, C]] - typing flattens it; spelled this way to exercise the flattening
    if len(members) <= 2:
        return t.Union[members[::1]]
    return t.Union[members[0], t.Union[members[1:]]]


def render(ast) -> str:
    if isinstance(ast, str):
        return ast
    if ast[0] == 'struct':
        return '{' + ', '.join(f"{k!r}: {render(v)}" for k, v in ast[1:]) + '}'
    if ast[0] == 'annot':
        return f"annot[{render(ast[1])}, {ast[2]}]"
    return f"{ast[0]}[{', '.join(render(c) for c in ast[1:])}]"


def depth(ast) -> int:
    if isinstance(ast, str):
        return 1
    if ast[0] == 'struct':
        return 1 + max([depth(v) for _, v in ast[1:]] or [0])
    if ast[0] == 'annot':
        return 1 + depth(ast[1])
    return 1 + max([depth(c) for c in ast[1:]] or [0])


# ------------------------------------------------------------------ enumeration

def hashable(ast) -> bool:
    """Whether images of this type are hashable (model-side static answer)."""
    if isinstance(ast, str):
        return ast in HASHABLE_LEAVES
    c = ast[0]
    if c in ('frozenset',):
        return True
    if c in ('tuplevar', 'tuple'):
        return all(hashable(x) for x in ast[1:])
    if c == 'optional':
        return hashable(ast[1])
    if c == 'union':
        return all(hashable(x) for x in ast[1:])
    if c == 'annot':
        return hashable(ast[1])
    return False


def composites_over(inner: t.List[t.Any], second: t.List[t.Any], keys: t.List[t.Any]) -> t.Iterator[t.Any]:
    """All one-level composites whose (first) child ranges over `inner`; second positions range over `second`."""
    for x in inner:
        unionable = isinstance(x, str) or x[0] != 'struct'      # typing cannot spell Union over a dict literal
        for c in ('list', 'tuplevar', 'set', 'frozenset', 'deque', 'optional'):
            if c == 'optional' and not unionable:
                continue
            yield [c, x]
        yield ['tuple', x]
        yield ['struct', ['k', x]]
        for y in second:
            yield ['tuple', x, y]
            yield ['tuple', y, x]
            if unionable and x != y:
                yield ['union', x, y]
                yield ['union', y, x]
            yield ['struct', ['k', x], ['j', y]]
        for k in keys:
            yield ['dict', k, x]
        yield ['defaultdict', 'str', x]
        yield ['ordereddict', 'str', x]
        if hashable(x):
            yield ['dict', x, 'int']
            yield ['counter', x]
        for c in CONDS:
            yield ['annot', x, c]


def expressions_ext(tier: str) -> t.List[t.Any]:
    """expressions(tier) plus every one-level composite over the model-free extra leaves and user conditions."""
    out = list(expressions(tier))
    seen = {_key(e) for e in out}
    extra = list(EXT_LEAVES)
    for e in composites_over(EXT_LEAVES, ['int', 'none', 'str'], ['str']):
        extra.append(e)
    for base in ('int', 'str', 'float', ['list', 'int'], 'any', 'bool'):
        for c in EXT_CONDS:
            extra.append(['annot', base, c])
            extra.append(['list', ['annot', base, c]])
            extra.append(['union', ['annot', base, c], 'none'])
    # members whose own error node is a sum (Annotated[Union], mixed enum) inside an outer union
    extra += [['union', ['annot', ['union', 'int', 'none'], 'even'], 'bytes'],
              ['list', ['union', 'tag_adj', 'int']], ['dict', 'str', 'tag_int'], ['dict', 'vol_int', 'int'],
              ['dict', 'vol_str', 'any'], ['set', 'vol_int']]
    # a tagged union as a member of an untagged one, followed by mapping-shaped members that would take the body without its tag
    for tg in ('tag_int', 'tag_ext', 'tag_adj'):
        for later in (['dict', 'str', 'int'], ['dict', 'str', 'any'], 'dc_defaults'):
            extra.append(['union', tg, later])
            extra.append(['union', later, tg])
        extra.append(['list', ['union', tg, ['dict', 'str', 'int']]])
        extra.append(['optional', tg])
    for e in extra:
        if _key(e) not in seen:
            seen.add(_key(e))
            out.append(e)
    return out


def tagged_expressions() -> t.List[t.Any]:
    """The tagged unions (which have a reference model) alone, in containers, and as members of untagged unions - both orders."""
    out: t.List[t.Any] = []
    for tg in TAGGED:
        out.append(tg)
        out += [['list', tg], ['optional', tg], ['dict', 'str', tg], ['tuple', 'int', tg], ['struct', ['k', tg]], ['tuplevar', tg]]
        for other in ('none', 'int', ['dict', 'str', 'int'], ['dict', 'str', 'any'], 'dc_defaults', ['list', 'int']):
            out.append(['union', tg, other])
            out.append(['union', other, tg])
        out.append(['list', ['union', tg, ['dict', 'str', 'int']]])
    out.append(['union', 'tag_int', 'tag_ext'])
    out.append(['union', 'tag_adj', 'tag_int'])
    return out


def expressions(tier: str) -> t.List[t.Any]:
    """The finite expression set of a tier, simplest first, deduplicated."""
    out: t.List[t.Any] = []
    seen = set()

    def add(e):
        k = _key(e)
        if k not in seen:
            seen.add(k)
            out.append(e)

    for leaf in ALL_LEAVES:
        add(leaf)
    for e in composites_over(ALL_LEAVES, CORE_LEAVES, KEY_LEAVES):
        add(e)
    # a few three-member unions with deliberate overlap
    # key / element types whose images are unhashable (the mapping or set cannot be built)
    for e in (['dict', ['list', 'str'], 'int'], ['dict', 'bare_list', 'int'], ['dict', ['tuplevar', ['list', 'int']], 'int'],
              ['counter', ['list', 'int']], ['dict', 'bare_dict', 'str'], ['set', ['tuplevar', 'bare_list']],
              ['dict', ['union', 'int', ['list', 'int']], 'int'], ['dict', ['frozenset', ['frozenset', 'int']], 'int'],
              ['dict', ['tuple', ['frozenset', 'int'], 'int'], 'str'], ['dict', ['tuplevar', ['frozenset', 'str']], 'int'],
              ['dict', 'dc_tupleout', 'int'] if False else ['set', ['frozenset', 'int']]):
        add(e)
    # members whose own error node is a sum (Annotated[Union], mixed enum) inside an outer union; raising conditions in unions
    for e in (['union', 'str', ['annot', ['union', 'int', 'float'], 'positive']], ['union', 'enum_mixed', ['list', 'int']],
              ['optional', ['annot', 'str', 'positive']], ['union', ['annot', 'int', 'raises'], 'str'],
              ['union', ['annot', 'str', 'raises'], 'int'], ['list', ['union', ['annot', 'int', 'raises'], 'none']]):
        add(e)
    # members where an earlier one accepts (and narrows, or truncates) the typed value of a later one
    for e in (['union', 'date', 'datetime'], ['union', 'time', 'datetime'], ['union', 'datetime', 'date'],
              ['union', 'dc_struct', 'dc_sub'], ['union', 'dc_sub', 'dc_struct'], ['list', ['union', 'dc_struct', 'dc_sub']],
              ['list', ['union', 'date', 'datetime']], ['struct', ['k', ['union', 'dc_struct', 'dc_sub']]],
              ['union', 'float', 'complex'], ['union', 'decimal', 'fraction'], ['union', 'purepath', 'str'],
              ['union', 'tuplevar', 'int'] if False else ['union', ['tuplevar', 'int'], ['list', 'int']],
              ['union', ['set', 'int'], ['list', 'int']], ['union', 'dc_defaults', 'dc_both']):
        add(e)
    # overlapping unions in BOTH orders inside containers: list[Union[int, float]] == list[Union[float, int]] (and hash alike) yet
    # they convert differently - e1 puts order twins in one shard, so a memo that confuses them shows
    for a, b in (('int', 'float'), ('str', 'date'), ('dc_struct', 'dc_sub'), (['list', 'int'], ['tuplevar', 'int'])):
        for u in (['union', a, b], ['union', b, a]):
            for e in (['list', u], ['tuplevar', u], ['dict', 'str', u], ['deque', u], ['tuple', u, 'int'], ['struct', ['k', u]],
                      ['optional', u], ['list', ['list', u]]):
                add(e)
    for e in ('dc_tuptag', ['list', 'dc_tuptag'], ['optional', 'dc_tuptag'], 'dc_listdc', ['list', 'dc_listdc'], ['dict', 'str', 'dc_listdc'],
              'dc_baddef', ['list', 'dc_baddef'], ['dict', 'str', 'dc_baddef'], ['union', 'dc_baddef', 'str'],
              'dc_setpost', ['list', 'dc_setpost'], ['optional', 'dc_setpost'], ['union', 'dc_setpost', 'str']):
        add(e)
    for e in (['set', 'dc_hidden'], ['frozenset', 'dc_hidden'], ['dict', 'dc_hidden', 'int'], ['list', ['set', 'dc_hidden']]):
        add(e)
    # alternatives whose own descriptions coincide ("tuple of length 2") but which fail at different places
    for e in (['union', ['tuple', 'int', 'str'], ['tuple', 'str', 'int']], ['union', ['tuple', 'int', 'int'], ['tuple', 'str', 'str']],
              ['list', ['union', ['tuple', 'int', 'str'], ['tuple', 'str', 'int']]],
              ['union', ['tuple', 'int', ['tuple', 'int', 'str']], ['tuple', 'str', ['tuple', 'str', 'int']]]):
        add(e)
    # two members that are the SAME container class with different element types: which member a value belongs to is decided by
    # its elements, never by its class (values of both members meet the same converter one after the other)
    for a, b in ((['deque', 'int'], ['deque', 'fraction']), (['deque', 'fraction'], ['deque', 'int']),
                 (['ordereddict', 'str', 'int'], ['ordereddict', 'str', 'decimal']), (['defaultdict', 'str', 'date'], ['defaultdict', 'str', 'int']),
                 (['counter', 'str'], ['counter', 'int']), (['frozenset', 'int'], ['frozenset', 'date'])):
        add(['union', a, b])
        add(['list', ['union', a, b]])
    for tri in (['union', 'int', 'float', 'str'], ['union', 'str', 'int', 'none'], ['union', 'bool', 'int', 'float'],
                ['union', 'lit_str', ['list', 'int'], 'none'], ['union', 'dc_struct', 'dc_both', 'str']):
        add(tri)
    if tier == 'thorough':
        d2 = [e for e in composites_over(CORE_LEAVES + ['dc_both', 'enum_int', 'lit_str'], ['int', 'str', 'none'], ['str', 'int'])]
        for e in composites_over(d2, ['int', 'str'], ['str']):
            add(e)
    else:
        # depth 3 over a very small base so that every constructor meets every constructor as grandparent too
        d2 = [e for e in composites_over(['int', 'str'], ['none'], ['str'])]
        for e in composites_over(d2, ['int'], ['str']):
            add(e)
    return out
